#!/usr/bin/env python3
"""Copy a confirmed seeded change into /verif/seeded/<ID>-<k>/ and write its meta.json.
usage: seed_store.py <ID> <k> '<json: {"summary":..,"needs":..,"detected":bool,"detected_by":[..],"verdict":..,"why_missed":..}>'"""
import json, os, shutil, sys, subprocess
pid, k, spec = sys.argv[1], sys.argv[2], json.loads(sys.argv[3])
src = "/tmp/wt/%s/out/change%s" % (pid, k)
dst = "/verif/seeded/%s-%s" % (pid, k)
os.makedirs(dst, exist_ok=True)
for f in ("patch.diff", "demo.rs", "demo_README.md", "notes.md"):
    if os.path.exists(os.path.join(src, f)):
        shutil.copy(os.path.join(src, f), os.path.join(dst, f))
files = subprocess.run(["grep", "-E", r"^\+\+\+ b/", os.path.join(dst, "patch.diff")], capture_output=True, text=True).stdout.split()
meta = {
    "property": pid,
    "seed": "%s-%s" % (pid, k),
    "origin": "independent sub-agent given only the property text and a scratch worktree of the pinned commit (nothing from /verif)",
    "files_touched": [f[2:] for f in files if f.startswith("b/")],
    "summary": spec["summary"],
    "needs_to_manifest": spec["needs"],
    "confirmed": {
        "how": "tools/seed_confirm.sh in the scratch worktree: patch applies and builds, `cargo test -p <crate> --offline` of the touched crate passes with the change, the demonstration fails with the change and passes without it",
        "result": "CONFIRMED",
    },
    "check_run": "tools/seed_check.sh %s seeded/%s-%s/patch.diff  (git apply to /repo, ./check %s --tier quick, git checkout -- .)" % (pid, pid, k, pid),
    "detected": spec["detected"],
    "detected_by": spec.get("detected_by", []),
    "check_verdict": spec.get("verdict", ""),
    "why_missed": spec.get("why_missed", ""),
}
json.dump(meta, open(os.path.join(dst, "meta.json"), "w"), indent=1)
print("stored", dst)
