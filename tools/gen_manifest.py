#!/usr/bin/env python3
"""Regenerate /verif/MANIFEST.json from /verif/claims.json (single source for claim texts)."""
import json
import os
import subprocess

V = os.path.dirname(os.path.dirname(os.path.abspath(__file__)))
claims = json.load(open(os.path.join(V, "claims.json")))
hooks = subprocess.run(["git", "-C", "/repo", "log", "--format=%H %s"], capture_output=True, text=True).stdout.splitlines()
hook_commits = [l.split()[0] for l in hooks if " verif hooks:" in l]
hook_commits.reverse()

man = {
    "version": 1,
    "setup_cmd": "./check --setup",
    "hooks": {
        "guard": "cfg(kani)",
        "enable": "cfg `kani` is set only by the Kani compiler (ordinary cargo build/test strips the hook items): "
                  "cargo kani -p <crate> (run by ./check inside /repo) compiles with --cfg kani, which mounts "
                  "/verif/harness/<crate>/<module>.rs as a child module `verif_kani` of the instrumented module",
        "baseline_off_cmd": "cd /repo && cargo nextest run --workspace --no-fail-fast --tool-config-file pb:/w/lib/nextest.toml "
                            "--profile pb --test-threads 8 --offline",
        "source_commits": hook_commits,
        "add_only": True,
    },
    "engines": [{
        "name": "kani-cbmc",
        "path": "/verif/check",
        "serves_properties": sorted(k for k, c in claims.items() if c.get("claimed")),
        "kind_free_text": "bounded symbolic execution of the compiled Rust (cargo kani 0.68 -> goto-program -> CBMC 6.11 + CaDiCaL); "
                          "harnesses under /verif/harness are child modules of the real modules; counterexamples are replayed "
                          "natively with cargo kani playback before they are reported",
    }],
    "checks": [],
    "not_applicable": [],
    "notes": "Every claim is a bounded claim about decision/arithmetic kernels of the property (DESIGN.md section 4 states, per "
             "property, what the kernels carry and what stays outside). Exit 2 = nothing decided or a result inconclusive (never reported as a violation); harnesses that ran out of time/memory are retried once, then printed as NOT-DECIDED and listed under not_decided in the evidence (not counted as explored).",
}
for pid in sorted(claims):
    c = claims[pid]
    if c.get("claimed"):
        man["checks"].append({
            "property_id": pid,
            "quick_cmd": "./check %s --tier quick" % pid,
            "thorough_cmd": "./check %s --tier thorough" % pid,
            "evidence_file": "/verif/evidence/%s.json" % pid,
            "replay_cmd_template": "./check %s --replay {path}" % pid,
            "engine": "kani-cbmc",
            "level_claimed": {"category": "model_checking", "text": c["level_text"], "design_ref": "DESIGN.md section 4, " + pid},
            "level_note": c["level_note"],
            "technique": c["technique"],
        })
    else:
        man["not_applicable"].append({"property_id": pid, "reason": c["reason"]})
json.dump(man, open(os.path.join(V, "MANIFEST.json"), "w"), indent=1)
print("MANIFEST.json: %d checks, %d not applicable" % (len(man["checks"]), len(man["not_applicable"])))
