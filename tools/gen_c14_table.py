#!/usr/bin/env python3
"""Generates the method-table part of /verif/harness/anda_db_server/api_mod.rs.
Oracle: a method is read-only iff its verb (text after the last '.') is one of the documented
read verbs; everything else must be classified Mutating (docs/anda_db_server API reference)."""
ROOT = ["info","db.list","db.create","db.open","db.connect","db.close","db.set_api_key","db.remove_api_key"]
DB = ["info","db.metadata","db.stats","db.flush","db.set_read_only","db.get_extension","db.save_extension","db.remove_extension",
 "collection.list","collection.create","collection.ensure","collection.metadata","collection.stats","collection.delete","collection.flush",
 "collection.set_read_only","collection.get_extension","collection.save_extension","collection.remove_extension",
 "doc.add","doc.add_many","doc.get","doc.get_many","doc.update","doc.remove","doc.exists","doc.count","doc.search","doc.search_ids",
 "doc.query_ids","doc.query_last_ids"]
READ_VERBS = {"info","list","metadata","stats","get_extension","get","get_many","exists","count","search","search_ids","query_ids","query_last_ids"}
def is_read(n): return n.split(".")[-1] in READ_VERBS
out = []
for tbl, names, ty in (("root", ROOT, "RootMethod"), ("db", DB, "DbMethod")):
    lens = sorted(set(len(n) for n in names) | {3})
    for L in lens:
        here = [n for n in names if len(n) == L]
        hname = "c14_%s_method_table_len%d" % (tbl, L)
        out.append("// @check id=C14 tier=%s cap=600 role=method_effect_table" % ("quick"))
        out.append("// @fns api::%s::parse" % ty)
        out.append("// @bound every %d-byte string (symbolic bytes): accepted iff it is a documented method name; Read iff its verb is a read verb" % L)
        out.append("#[kani::proof]\n#[kani::unwind(%d)]\nfn %s() {" % (L + 2, hname))
        out.append("    let bytes: [u8; %d] = kani::any();" % L)
        out.append("    let s = unsafe { std::str::from_utf8_unchecked(&bytes) };")
        out.append("    let got = %s::parse(s);" % ty)
        out.append("    let known: [(&str, bool); %d] = [%s];" % (len(here), ", ".join('("%s", %s)' % (n, "true" if is_read(n) else "false") for n in here)))
        out.append("    let mut expect: Option<bool> = None;")
        out.append("    let mut i = 0;\n    while i < known.len() {\n        if eq_bytes(s.as_bytes(), known[i].0.as_bytes()) {\n            expect = Some(known[i].1);\n        }\n        i += 1;\n    }")
        out.append("    match (&got, expect) {")
        out.append("        (None, None) => {}")
        out.append("        (Some((_, e)), Some(read)) => assert!((*e == MethodEffect::Read) == read, \"read-only iff the verb is a read verb\"),")
        out.append("        (Some(_), None) => assert!(false, \"undocumented method name accepted\"),")
        out.append("        (None, Some(_)) => assert!(false, \"documented method name not resolved\"),")
        out.append("    }")
        if here:
            out.append("    kani::cover!(got.is_some(), \"a known name of this length\");")
        out.append("    kani::cover!(got.is_none(), \"an unknown name of this length\");")
        out.append("}\n")
print("\n".join(out))
