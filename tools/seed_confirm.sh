#!/bin/bash
# usage: seed_confirm.sh <worktree> <change_dir> <crate> <demo_dest|append:FILE> <demo test args...>
# Confirms a seeded change independently: (1) applies, builds and passes the crate's existing tests,
# (2) the demonstration fails with it, (3) passes without it. Prints CONFIRMED or NOT-CONFIRMED.
wt=$1; ch=$2; crate=$3; dest=$4; shift 4
export CARGO_TARGET_DIR=$wt/target CARGO_NET_OFFLINE=true
cd $wt || exit 9
git checkout -q -- . && git clean -fdq -e out -e target
git apply $ch/patch.diff || { echo "NOT-CONFIRMED: patch does not apply"; exit 1; }
echo "--- existing tests with the change"
if cargo test -p $crate --offline -j 6 2>&1 | tee /tmp/sc.$$ | grep -E "^test result|FAILED|error(\[|:)" | sort | uniq -c | tail -8; grep -qE "FAILED|^error" /tmp/sc.$$; then echo "NOT-CONFIRMED: existing tests fail or do not build"; git checkout -q -- .; exit 1; fi
place() { case "$dest" in append:*) cat $ch/demo.rs >> ${dest#append:};; *) mkdir -p $(dirname $dest); cp $ch/demo.rs $dest;; esac; }
place
echo "--- demo with the change (must fail)"
cargo test -p $crate --offline -j 6 "$@" 2>&1 | grep -E "^test result|^test .*FAILED|panicked" | head -6
with=${PIPESTATUS[0]}
git checkout -q -- . ; git clean -fdq -e out -e target; place
echo "--- demo without the change (must pass)"
cargo test -p $crate --offline -j 6 "$@" 2>&1 | grep -E "^test result|^test .*FAILED|panicked" | head -6
without=${PIPESTATUS[0]}
git checkout -q -- . ; git clean -fdq -e out -e target
if [ $with -ne 0 ] && [ $without -eq 0 ]; then echo "CONFIRMED"; else echo "NOT-CONFIRMED with=$with without=$without"; exit 1; fi
