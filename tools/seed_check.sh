#!/bin/bash
# usage: tools/seed_check.sh <property> <patch.diff> [extra ./check args]
# applies a seeded change to /repo, runs the property's check, reverts. Prints the check output.
set -u
pid=$1; patch=$2; shift 2
cd /repo || exit 9
if ! git diff --quiet; then echo "/repo is dirty"; exit 9; fi
git apply "$patch" || { echo "patch does not apply"; exit 9; }
cd /verif && ./check "$pid" --no-evidence "$@"; rc=$?
git -C /repo checkout -- . 
echo "seed_check rc=$rc"
exit $rc
