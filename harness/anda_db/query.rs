// harness for rs/anda_db/src/query.rs (mounted by #[cfg(kani)] hook)
