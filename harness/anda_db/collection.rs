// harness for rs/anda_db/src/collection.rs (mounted by #[cfg(kani)] hook)
