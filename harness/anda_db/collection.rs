// @module collection::verif_kani
// Kani harnesses for rs/anda_db/src/collection.rs — property C03: ScanOrder::truncate, the single
// place where every bounded query is cut: a bounded page is the first / last `limit` elements of the
// full ascending result.
use super::*;

// @check id=C03 tier=quick cap=600 role=truncate_is_an_end_of_the_result
// @fns collection::ScanOrder::truncate, collection::ScanOrder::is_descending
// @bound strictly ascending result of 0..5 full-width symbolic ids; limit any usize; both orders
#[kani::proof]
#[kani::unwind(7)]
fn c03_truncate_keeps_first_or_last_limit() {
    const N: usize = 5;
    let vals: [u64; N] = kani::any();
    let len: usize = kani::any();
    kani::assume(len <= N);
    let mut i = 1;
    while i < N {
        kani::assume(vals[i - 1] < vals[i]);
        i += 1;
    }
    let limit: usize = kani::any();
    let desc: bool = kani::any();
    let mut v: Vec<u64> = Vec::with_capacity(N);
    let mut j = 0;
    while j < len {
        v.push(vals[j]);
        j += 1;
    }
    let order = if desc { ScanOrder::Descending } else { ScanOrder::Ascending };
    assert!(order.is_descending() == desc, "is_descending");
    order.truncate(&mut v, limit);
    let keep = if limit == 0 || limit >= len { len } else { limit };
    assert!(v.len() == keep, "limit == 0 means no limit; otherwise min(limit, len) elements remain");
    let off = if desc { len - keep } else { 0 };
    let mut k = 0;
    while k < keep {
        assert!(v[k] == vals[off + k], "the page is the first (ascending) / last (descending) `limit` elements, still ascending");
        k += 1;
    }
    kani::cover!(desc && keep < len && keep > 0, "descending page cut from the front");
    kani::cover!(!desc && keep < len && keep > 0, "ascending page cut from the back");
    kani::cover!(limit == 0 && len == N, "no limit");
    kani::cover!(limit == len && len > 0, "limit == len");
    std::mem::forget(v);
}

// @check id=C03 tier=thorough cap=300 expect=fail role=witness_truncate
// @fns collection::ScanOrder::truncate
// @bound vacuity twin: must come back FAILED
#[kani::proof]
#[kani::unwind(7)]
fn c03_truncate_witness_must_fail() {
    let mut v: Vec<u64> = vec![1, 2, 3];
    let limit: usize = kani::any();
    ScanOrder::Descending.truncate(&mut v, limit);
    let n = v.len();
    std::mem::forget(v);
    assert!(n > 3, "reachability witness");
}
