// harness for rs/anda_db/src/index/mod.rs (mounted by #[cfg(kani)] hook)
