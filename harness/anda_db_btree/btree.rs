// harness for rs/anda_db_btree/src/btree.rs (mounted by #[cfg(kani)] hook)
