// @module btree::verif_kani
// Kani harnesses for rs/anda_db_btree/src/btree.rs — property C03: the match predicate that `And`
// evaluation uses to intersect (BTreeIndex::range_key_matches_query) follows the set-algebra reading
// of the query tree. Decided compositionally (DESIGN.md C03): every leaf kind for all u64 keys,
// negation, and the empty / singleton / pair cases of conjunction and disjunction over children with
// free truth values (`Eq(c)` matches iff key == c); structural induction over the (structurally
// recursive) function gives every tree.
use super::*;
type Ix = BTreeIndex<u64, u64>;

macro_rules! leaf {
    ($name:ident, $q:expr, $sem:expr, $c1:expr, $c2:expr) => {
        #[kani::proof]
        #[kani::unwind(4)]
        fn $name() {
            let (k, a, b): (u64, u64, u64) = (kani::any(), kani::any(), kani::any());
            let mk: fn(u64, u64) -> RangeQuery<u64> = $q;
            let sem: fn(u64, u64, u64) -> bool = $sem;
            let q = mk(a, b);
            let got = Ix::range_key_matches_query(&k, &q);
            assert!(got == sem(k, a, b), "leaf predicate equals its set reading for every key");
            let c1: fn(bool, u64, u64, u64) -> bool = $c1;
            let c2: fn(bool, u64, u64, u64) -> bool = $c2;
            kani::cover!(c1(got, k, a, b), "witness 1");
            kani::cover!(c2(got, k, a, b), "witness 2");
            std::mem::forget(q);
        }
    };
}

// @check id=C03 tier=quick cap=300 role=leaf_predicates harness=c03_leaf_eq,c03_leaf_gt,c03_leaf_ge,c03_leaf_lt,c03_leaf_le,c03_leaf_between,c03_leaf_include
// @fns BTreeIndex::range_key_matches_query
// @bound one leaf of a concrete kind (Eq/Gt/Ge/Lt/Le/Between/Include[a,b]); key and both operands full-width symbolic u64 (Between incl. inverted, Include incl. duplicates)
leaf!(c03_leaf_eq, |a, _| RangeQuery::Eq(a), |k, a, _| k == a, |g, _, _, _| g, |g, _, _, _| !g);
leaf!(c03_leaf_gt, |a, _| RangeQuery::Gt(a), |k, a, _| k > a, |g, _, _, _| g, |g, k, a, _| !g && k == a);
leaf!(c03_leaf_ge, |a, _| RangeQuery::Ge(a), |k, a, _| k >= a, |g, k, a, _| g && k == a, |g, _, _, _| !g);
leaf!(c03_leaf_lt, |a, _| RangeQuery::Lt(a), |k, a, _| k < a, |g, _, _, _| g, |g, k, a, _| !g && k == a);
leaf!(c03_leaf_le, |a, _| RangeQuery::Le(a), |k, a, _| k <= a, |g, k, a, _| g && k == a, |g, _, _, _| !g);
leaf!(c03_leaf_between, |a, b| RangeQuery::Between(a, b), |k, a, b| a <= k && k <= b, |g, k, _, b| g && k == b, |g, k, a, b| !g && a > b && b <= k && k <= a);
leaf!(c03_leaf_include, |a, b| RangeQuery::Include(vec![a, b]), |k, a, b| k == a || k == b, |g, _, a, b| g && a == b, |g, _, _, _| !g);

// @check id=C03 tier=quick cap=300 role=include_empty
// @fns BTreeIndex::range_key_matches_query
// @bound Include([]) for every key
#[kani::proof]
#[kani::unwind(3)]
fn c03_include_empty_matches_nothing() {
    let k: u64 = kani::any();
    let q: RangeQuery<u64> = RangeQuery::Include(vec![]);
    assert!(!Ix::range_key_matches_query(&k, &q), "Include([]) matches nothing");
    kani::cover!(k == 0, "zero key");
    kani::cover!(k == u64::MAX, "max key");
    std::mem::forget(q);
}

fn kids(c: &[u64], n: usize) -> Vec<Box<RangeQuery<u64>>> {
    let mut v: Vec<Box<RangeQuery<u64>>> = Vec::with_capacity(2);
    let mut i = 0;
    while i < n {
        v.push(Box::new(RangeQuery::Eq(c[i])));
        i += 1;
    }
    v
}

// Node kinds and arities are CONCRETE per harness: with a symbolic kind CBMC unfolds every recursive
// arm on reinterpreted payload bytes (measured: a symbolic choice among And/Or/Not over <= 1 child
// did not finish in 600 s; the concrete shapes below take seconds).
// Placement of the root matters to CBMC's points-to analysis (measured, both directions):
//   * a root And/Or on the *stack* does not terminate (And[Ge c]: > 60 s), boxed it takes 0.5 s;
//   * a Not node on the *heap* (boxed root Not, or Not nested under another node) does not terminate
//     (> 120 s), a root Not on the stack takes 1 s.
// So And/Or-rooted shapes box their root, Not-rooted shapes keep it on the stack, and shapes with a
// nested Not (Not Not q, And[Not x, Not y]) are out of reach — the Not arm is decided at the root and
// the induction argument (DESIGN.md C03) carries it inward.
macro_rules! shape {
    ($name:ident, $unwind:expr, boxed, |$k:ident, $c:ident| $build:expr, $want:expr, $depth:expr) => {
        #[kani::proof]
        #[kani::unwind($unwind)]
        fn $name() {
            let $k: u64 = kani::any();
            let $c: [u64; 2] = kani::any();
            let q: Box<RangeQuery<u64>> = Box::new($build);
            let got = Ix::range_key_matches_query(&$k, &q);
            let want: bool = $want;
            assert!(got == want, "the query tree matches exactly the keys its set-algebra reading denotes");
            assert!(q.depth() == $depth, "depth() equals the tree's depth");
            kani::cover!(got, "a matching key");
            kani::cover!(!got, "a non-matching key");
            std::mem::forget(q);
        }
    };
    ($name:ident, $unwind:expr, stack, |$k:ident, $c:ident| $build:expr, $want:expr, $depth:expr) => {
        #[kani::proof]
        #[kani::unwind($unwind)]
        fn $name() {
            let $k: u64 = kani::any();
            let $c: [u64; 2] = kani::any();
            let q: RangeQuery<u64> = $build;
            let got = Ix::range_key_matches_query(&$k, &q);
            let want: bool = $want;
            assert!(got == want, "the query tree matches exactly the keys its set-algebra reading denotes");
            assert!(q.depth() == $depth, "depth() equals the tree's depth");
            kani::cover!(got, "a matching key");
            kani::cover!(!got, "a non-matching key");
            std::mem::forget(q);
        }
    };
}
macro_rules! shape_const {
    ($name:ident, $unwind:expr, $build:expr, $want:expr, $depth:expr) => {
        #[kani::proof]
        #[kani::unwind($unwind)]
        fn $name() {
            let k: u64 = kani::any();
            let q: Box<RangeQuery<u64>> = Box::new($build);
            let got = Ix::range_key_matches_query(&k, &q);
            assert!(got == $want, "an empty conjunction / disjunction matches nothing");
            assert!(q.depth() == $depth, "depth() equals the tree's depth");
            kani::cover!(k == 0, "zero key");
            kani::cover!(k == u64::MAX, "max key");
            std::mem::forget(q);
        }
    };
}
fn eq(c: u64) -> Box<RangeQuery<u64>> {
    Box::new(RangeQuery::Eq(c))
}

// @check id=C03 tier=quick cap=600 role=combinators harness=c03_not_child,c03_and_one_child,c03_or_one_child,c03_and_two_children,c03_or_two_children
// @fns BTreeIndex::range_key_matches_query, RangeQuery::depth
// @bound one concrete combinator shape per harness over children Eq(c_i) with symbolic c_i (a child that matches iff key == c_i, i.e. a free truth value); key full-width symbolic
shape!(c03_not_child, 4, stack, |k, c| RangeQuery::Not(eq(c[0])), c[0] != k, 2);
shape!(c03_and_one_child, 4, boxed, |k, c| RangeQuery::And(vec![eq(c[0])]), c[0] == k, 2);
shape!(c03_or_one_child, 4, boxed, |k, c| RangeQuery::Or(vec![eq(c[0])]), c[0] == k, 2);
shape!(c03_and_two_children, 5, boxed, |k, c| RangeQuery::And(vec![eq(c[0]), eq(c[1])]), c[0] == k && c[1] == k, 2);
shape!(c03_or_two_children, 5, boxed, |k, c| RangeQuery::Or(vec![eq(c[0]), eq(c[1])]), c[0] == k || c[1] == k, 2);

// @check id=C03 tier=quick cap=600 role=combinators_empty harness=c03_and_empty,c03_or_empty
// @fns BTreeIndex::range_key_matches_query
// @bound And([]) and Or([]) for every key
shape_const!(c03_and_empty, 4, RangeQuery::And(vec![]), false, 1);
shape_const!(c03_or_empty, 4, RangeQuery::Or(vec![]), false, 1);

// logically equivalent filters agree (fixed shapes): all four read "a <= k <= b" (or its complement)
// @check id=C03 tier=quick cap=900 role=equivalences harness=c03_between_as_and,c03_de_morgan_lhs,c03_and_under_not,c03_not_between
// @fns BTreeIndex::range_key_matches_query
// @bound And[Ge a, Le b], Not(Or[Lt a, Gt b]) and Between(a,b) all equal a <= k <= b (inverted ranges included); Not(And[Ge a, Le b]) and Not(Between(a,b)) equal its complement; all operands full-width symbolic
shape!(c03_between_as_and, 5, boxed, |k, c| RangeQuery::And(vec![Box::new(RangeQuery::Ge(c[0])), Box::new(RangeQuery::Le(c[1]))]), c[0] <= k && k <= c[1], 2);
shape!(c03_de_morgan_lhs, 5, stack, |k, c| RangeQuery::Not(Box::new(RangeQuery::Or(vec![Box::new(RangeQuery::Lt(c[0])), Box::new(RangeQuery::Gt(c[1]))]))), c[0] <= k && k <= c[1], 3);
shape!(c03_and_under_not, 5, stack, |k, c| RangeQuery::Not(Box::new(RangeQuery::And(vec![Box::new(RangeQuery::Ge(c[0])), Box::new(RangeQuery::Le(c[1]))]))), !(c[0] <= k && k <= c[1]), 3);
shape!(c03_not_between, 5, stack, |k, c| RangeQuery::Not(Box::new(RangeQuery::Between(c[0], c[1]))), !(c[0] <= k && k <= c[1]), 2);

// nested Not (out of reach in the probes; kept in the thorough tier so a future engine that decides it is noticed)
// @check id=C03 tier=thorough cap=600 role=nested_not harness=c03_not_not
// @fns BTreeIndex::range_key_matches_query
// @bound Not(Not(Between(a,b))) == Between(a,b)
shape!(c03_not_not, 5, stack, |k, c| RangeQuery::Not(Box::new(RangeQuery::Not(Box::new(RangeQuery::Between(c[0], c[1]))))), c[0] <= k && k <= c[1], 3);

// @check id=C03 tier=thorough cap=300 expect=fail role=witness
// @fns BTreeIndex::range_key_matches_query
// @bound vacuity twin: must come back FAILED
#[kani::proof]
#[kani::unwind(4)]
fn c03_witness_must_fail() {
    let (k, a): (u64, u64) = (kani::any(), kani::any());
    let q = RangeQuery::Not(Box::new(RangeQuery::Eq(a)));
    let got = Ix::range_key_matches_query(&k, &q);
    std::mem::forget(q);
    assert!(got && !got, "reachability witness");
}
