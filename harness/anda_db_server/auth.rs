// @module auth::verif_kani
// Kani harnesses for rs/anda_db_server/src/auth.rs — property C14 (authorization decision).
// The real `authorize`, `ApiKeyHash::verify` and `constant_time_eq` are executed; only the SHA3
// digest is replaced by an injective "ideal hash" (collision-freeness of SHA3-256 on the key pool
// is the assumption). Hashes are always built through `ApiKeyHash::from_key`, and expectations are
// stated over the *key strings*, so the same bodies replay natively with the real SHA3.
use super::*;
use axum::http::StatusCode;

/// Ideal hash: injective on keys of length <= 2 and on the (40-byte) timing dummy:
/// (length, first byte, second byte).
fn ideal_from_key(key: &str) -> ApiKeyHash {
    let b = key.as_bytes();
    let mut h = [0u8; 32];
    h[0] = b.len() as u8;
    if !b.is_empty() {
        h[1] = b[0];
    }
    if b.len() > 1 {
        h[2] = b[1];
    }
    ApiKeyHash(h)
}

/// A key of 0..2 symbolic lowercase ASCII bytes: covers "equal", "different", "empty", "prefix of".
struct Key {
    buf: [u8; 2],
    len: usize,
}
impl Key {
    fn any() -> Self {
        let (c0, c1): (u8, u8) = (kani::any(), kani::any());
        kani::assume(c0 >= b'a' && c0 <= b'c' && c1 >= b'a' && c1 <= b'c');
        let len: usize = kani::any();
        kani::assume(len <= 2);
        Key { buf: [c0, c1], len }
    }
    fn s(&self) -> &str {
        unsafe { std::str::from_utf8_unchecked(&self.buf[..self.len]) }
    }
    fn same(&self, o: &Key) -> bool {
        self.len == o.len && (self.len < 1 || self.buf[0] == o.buf[0]) && (self.len < 2 || self.buf[1] == o.buf[1])
    }
}

fn err_sig(e: &ApiError) -> (u16, usize, usize) {
    (e.status.as_u16(), e.code.len(), e.message.len())
}

// @check id=C14 tier=quick cap=600 role=authorize_truth_table
// @fns auth::authorize, auth::ApiKeyHash::verify, api::constant_time_eq
// @bound admin/bound/presented each optional; keys are strings of 0..2 symbolic bytes in a..c (equal, different, empty, strict prefix all occur); scope in {Root, Database}
// @stubs ApiKeyHash::from_key -> injective ideal hash (len, b0, b1)
// @assume SHA3-256 is collision free on the key pool (ideal hash)
#[kani::proof]
#[kani::unwind(34)]
#[kani::stub(ApiKeyHash::from_key, ideal_from_key)]
fn c14_authorize_truth_table() {
    let ka = Key::any();
    let kb = Key::any();
    let kp = Key::any();
    let has_admin: bool = kani::any();
    let has_bound: bool = kani::any();
    let has_pres: bool = kani::any();
    let root: bool = kani::any();
    let admin = ApiKeyHash::from_key(ka.s());
    let bound = ApiKeyHash::from_key(kb.s());
    let scope = if root { Scope::Root } else { Scope::Database("db") };
    let r = authorize(
        if has_admin { Some(&admin) } else { None },
        if has_bound { Some(&bound) } else { None },
        scope,
        if has_pres { Some(kp.s()) } else { None },
    );
    // the module's four precedence rules, stated over the key strings
    let expect: Option<Principal> = if !has_admin {
        Some(Principal::Admin)
    } else if has_pres && kp.same(&ka) {
        Some(Principal::Admin)
    } else if !root && has_bound && has_pres && kp.same(&kb) {
        Some(Principal::Database)
    } else {
        None
    };
    match (&r, expect) {
        (Ok(p), Some(e)) => assert!(*p == e, "principal as the precedence rules say"),
        (Err(e), None) => {
            assert!(e.status == StatusCode::UNAUTHORIZED, "rejection is 401");
        }
        (Ok(_), None) => assert!(false, "authorized although no rule allows it"),
        (Err(_), Some(_)) => assert!(false, "rejected although a rule allows it"),
    }
    // a per-database key never yields Admin, and never anything in the root scope
    if has_admin && !(has_pres && kp.same(&ka)) {
        assert!(!matches!(r, Ok(Principal::Admin)), "no Admin without the admin key");
        if root {
            assert!(r.is_err(), "root scope is admin only");
        }
    }
    kani::cover!(matches!(r, Ok(Principal::Database)), "database principal granted");
    kani::cover!(has_admin && matches!(r, Ok(Principal::Admin)), "admin by key");
    kani::cover!(r.is_err() && !root && has_bound && has_pres, "wrong key for a bound database");
    kani::cover!(r.is_err() && root && has_bound && has_pres && kp.same(&kb), "bound key presented at root");
    kani::cover!(r.is_err() && has_admin && has_pres && !has_bound && kp.len == 1 && ka.len == 2 && kp.buf[0] == ka.buf[0], "a strict prefix of the admin key is rejected");
    std::mem::forget(r);
}

// Relational: the root scope never consults the bound key; and every rejection is the same
// response whether the database is bound to another key, unbound / missing, or no token is sent.
// @check id=C14 tier=quick cap=600 role=uniform_rejection
// @fns auth::authorize, auth::ApiKeyHash::verify, api::constant_time_eq, error::ApiError::unauthorized
// @bound two runs that differ only in the `bound` argument (None / Some(any 0..2-byte key)); same admin, presented, scope
// @stubs ApiKeyHash::from_key -> injective ideal hash (len, b0, b1)
#[kani::proof]
#[kani::unwind(34)]
#[kani::stub(ApiKeyHash::from_key, ideal_from_key)]
fn c14_uniform_rejection_and_root_ignores_bound() {
    let ka = Key::any();
    let kb1 = Key::any();
    let kb2 = Key::any();
    let kp = Key::any();
    let has_b1: bool = kani::any();
    let has_b2: bool = kani::any();
    let has_pres: bool = kani::any();
    let root: bool = kani::any();
    let admin = ApiKeyHash::from_key(ka.s());
    let b1 = ApiKeyHash::from_key(kb1.s());
    let b2 = ApiKeyHash::from_key(kb2.s());
    let scope = if root { Scope::Root } else { Scope::Database("db") };
    let pres = if has_pres { Some(kp.s()) } else { None };
    let r1 = authorize(Some(&admin), if has_b1 { Some(&b1) } else { None }, scope, pres);
    let r2 = authorize(Some(&admin), if has_b2 { Some(&b2) } else { None }, scope, pres);
    if root {
        // same outcome whatever is bound
        assert!(r1.is_ok() == r2.is_ok(), "root: bound key is never consulted");
        if let (Ok(p1), Ok(p2)) = (&r1, &r2) {
            assert!(p1 == p2, "root: same principal");
        }
    }
    if let (Err(e1), Err(e2)) = (&r1, &r2) {
        assert!(e1.status == e2.status, "uniform status");
        assert!(e1.code == e2.code, "uniform code");
        assert!(e1.message == e2.message, "uniform message");
        assert!(err_sig(e1) == err_sig(e2), "uniform shape");
    }
    kani::cover!(r1.is_err() && r2.is_err() && has_b1 && !has_b2, "bound-to-another-key vs unbound, both rejected");
    kani::cover!(root && has_b1 != has_b2 && r1.is_ok(), "root admin with/without bound key");
    kani::cover!(!root && r1.is_ok() && r2.is_err(), "bound key decides in database scope");
    std::mem::forget((r1, r2));
}

// The digest comparison itself (real constant_time_eq on 32-byte digests): verify(k) accepts
// exactly the digests equal to from_key(k) — checked on raw symbolic digests, no hash involved.
// @check id=C14 tier=quick cap=600 role=digest_equality
// @fns auth::ApiKeyHash::eq, api::constant_time_eq
// @bound two arbitrary 32-byte digests
#[kani::proof]
#[kani::unwind(34)]
fn c14_digest_equality_is_bytewise() {
    let a: [u8; 32] = kani::any();
    let b: [u8; 32] = kani::any();
    let ha = ApiKeyHash(a);
    let hb = ApiKeyHash(b);
    let mut same = true;
    let mut i = 0;
    while i < 32 {
        if a[i] != b[i] {
            same = false;
        }
        i += 1;
    }
    assert!((ha == hb) == same, "ApiKeyHash equality is bytewise equality");
    kani::cover!(same, "equal digests");
    kani::cover!(!same && a[31] != b[31] && a[0] == b[0], "differ only late");
}

// @check id=C14 tier=thorough cap=300 expect=fail role=witness
// @fns auth::authorize
// @bound vacuity twin: must come back FAILED
// @stubs ApiKeyHash::from_key -> injective ideal hash (len, b0, b1)
#[kani::proof]
#[kani::unwind(34)]
#[kani::stub(ApiKeyHash::from_key, ideal_from_key)]
fn c14_witness_must_fail() {
    let ka = Key::any();
    let kp = Key::any();
    let admin = ApiKeyHash::from_key(ka.s());
    let r = authorize(Some(&admin), None, Scope::Database("db"), Some(kp.s()));
    std::mem::forget(r);
    assert!(false, "reachability witness");
}
