// harness for rs/anda_db_server/src/auth.rs (mounted by #[cfg(kani)] hook)
