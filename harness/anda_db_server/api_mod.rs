// harness for rs/anda_db_server/src/api/mod.rs (mounted by #[cfg(kani)] hook)
