// @module encryption::verif_kani
// Kani harnesses for rs/anda_object_store/src/encryption.rs — property C09 (cryptographic-binding
// kernels). Modelling assumption: AES-256-GCM is an ideal AEAD, so "every modification is detected"
// reduces to "everything a reader uses is a function of what is bound into a nonce or an AAD":
// injectivity of derive_gcm_nonce / chunk_aad / metadata_auth_aad, plus the pre-cipher downgrade
// decision of verify_metadata.
use super::*;
include!("/verif/harness/common.rs");

fn bytes_differ(a: &[u8], b: &[u8]) -> bool {
    if a.len() != b.len() {
        return true;
    }
    let mut i = 0;
    let mut d = false;
    while i < a.len() {
        if a[i] != b[i] {
            d = true;
        }
        i += 1;
    }
    d
}

// K1 -------------------------------------------------------------------------------------------
// @check id=C09 tier=quick cap=300 role=nonce_injective
// @fns encryption::derive_gcm_nonce
// @bound every 96-bit base nonce, every pair of 64-bit chunk indices
#[kani::proof]
#[kani::unwind(14)]
fn c09_nonce_unique_per_chunk_index() {
    let base: [u8; 12] = kani::any();
    let i: u64 = kani::any();
    let j: u64 = kani::any();
    let ni = derive_gcm_nonce(&base, i);
    let nj = derive_gcm_nonce(&base, j);
    if i != j {
        assert!(bytes_differ(&ni, &nj), "two chunk indices of one object never share a nonce");
    }
    assert!(ni[0] == base[0] && ni[1] == base[1] && ni[2] == base[2] && ni[3] == base[3], "salt bytes kept");
    let z = derive_gcm_nonce(&base, 0);
    assert!(!bytes_differ(&z, &base), "chunk 0 uses the base nonce");
    kani::cover!(i != j && (i as u32) == (j as u32), "indices equal in the low 32 bits");
    kani::cover!(i != j && ni[4] == nj[4], "counter low byte equal, nonce still differs");
}

// K2 -------------------------------------------------------------------------------------------
// @check id=C09 tier=quick cap=300 role=chunk_aad_injective
// @fns encryption::chunk_aad
// @bound every two (chunk_size, chunk_index) pairs of full-width u64
#[kani::proof]
#[kani::unwind(60)]
fn c09_chunk_aad_binds_size_and_index() {
    let (c1, i1): (u64, u64) = (kani::any(), kani::any());
    let (c2, i2): (u64, u64) = (kani::any(), kani::any());
    let a1 = chunk_aad(c1, i1);
    let a2 = chunk_aad(c2, i2);
    if c1 != c2 || i1 != i2 {
        assert!(bytes_differ(&a1, &a2), "a chunk cannot be moved to another index or read under another chunk size");
    }
    assert!(a1.len() == 52, "36 bytes of domain separation + 8 + 8");
    kani::cover!(c1 == c2 && i1 != i2, "same size, other index");
    kani::cover!(c1 != c2 && i1 == i2, "same index, other size");
    kani::cover!(c1 == i2 && i1 == c2 && c1 != i1, "size and index swapped");
    std::mem::forget((a1, a2));
}

// K3 -------------------------------------------------------------------------------------------
fn sym_string(len: usize) -> String {
    let mut v = Vec::with_capacity(len);
    let mut i = 0;
    while i < len {
        let b: u8 = kani::any();
        kani::assume(b >= 0x20 && b < 0x7f);
        v.push(b);
        i += 1;
    }
    unsafe { String::from_utf8_unchecked(v) }
}
fn opt_string(present: bool, len: usize) -> Option<String> {
    if present { Some(sym_string(len)) } else { None }
}
fn sym_tag() -> ByteArray<16> {
    ByteArray::from(kani::any::<[u8; 16]>())
}

/// Presence shapes: 0 = everything present, 1 = every optional field absent,
/// 2 = sealed-v1 shape (generation and commit time absent, the rest present).
fn base_meta(shape: u8) -> Metadata {
    let all = shape == 0;
    let v1 = shape == 2;
    let mut aes_tags = Vec::new();
    aes_tags.push(sym_tag());
    Metadata {
        size: kani::any(),
        e_tag: opt_string(all || v1, 2),
        original_tag: opt_string(all || v1, 1),
        original_version: opt_string(all || v1, 1),
        aes_nonce: ByteArray::from(kani::any::<[u8; 12]>()),
        aes_tags,
        chunk_size: if all || v1 { Some(kani::any()) } else { None },
        chunk_aad_version: if all || v1 { Some(kani::any()) } else { None },
        auth_nonce: None,
        auth_tag: None,
        generation: opt_string(all, 2),
        committed_at_ms: if all { Some(kani::any()) } else { None },
    }
}

fn other_string(old: &Option<String>, variant: u8) -> Option<String> {
    // variant 0: same length, different bytes; 1: presence flipped; 2: one byte longer
    match (old, variant) {
        (Some(s), 0) => {
            let n = sym_string(s.len());
            kani::assume(bytes_differ(n.as_bytes(), s.as_bytes()));
            Some(n)
        }
        (Some(_), 1) => None,
        (None, _) => Some(sym_string(1)),
        (Some(s), _) => Some(sym_string(s.len() + 1)),
    }
}

/// Field numbers for the single-site tamper harnesses.
const F_SIZE: u8 = 0;
const F_ETAG: u8 = 1;
const F_OTAG: u8 = 2;
const F_OVER: u8 = 3;
const F_NONCE: u8 = 4;
const F_CHUNK: u8 = 5;
const F_AADV: u8 = 6;
const F_TAG0: u8 = 7;
const F_TAGS_LEN: u8 = 8;
const F_GEN: u8 = 9;
const F_COMMIT: u8 = 10;

fn tamper(m: &Metadata, field: u8, variant: u8) -> Metadata {
    let mut t = m.clone();
    match field {
        F_SIZE => {
            t.size = kani::any();
            kani::assume(t.size != m.size);
        }
        F_ETAG => t.e_tag = other_string(&m.e_tag, variant),
        F_OTAG => t.original_tag = other_string(&m.original_tag, variant),
        F_OVER => t.original_version = other_string(&m.original_version, variant),
        F_NONCE => {
            let n: [u8; 12] = kani::any();
            kani::assume(bytes_differ(&n, m.aes_nonce.as_slice()));
            t.aes_nonce = ByteArray::from(n);
        }
        F_CHUNK => {
            t.chunk_size = if variant == 1 && m.chunk_size.is_some() { None } else { Some(kani::any()) };
            kani::assume(t.chunk_size != m.chunk_size);
        }
        F_AADV => {
            t.chunk_aad_version = if variant == 1 && m.chunk_aad_version.is_some() { None } else { Some(kani::any()) };
            kani::assume(t.chunk_aad_version != m.chunk_aad_version);
        }
        F_TAG0 => {
            let n: [u8; 16] = kani::any();
            kani::assume(bytes_differ(&n, m.aes_tags[0].as_slice()));
            t.aes_tags[0] = ByteArray::from(n);
        }
        F_TAGS_LEN => {
            if variant == 1 {
                t.aes_tags.pop(); // truncated tag list
            } else {
                t.aes_tags.push(sym_tag()); // extended tag list
            }
        }
        F_GEN => t.generation = other_string(&m.generation, variant),
        _ => {
            t.committed_at_ms = if variant == 1 && m.committed_at_ms.is_some() { None } else { Some(kani::any()) };
            kani::assume(t.committed_at_ms != m.committed_at_ms);
        }
    }
    t
}

fn seal_covers(field: u8, variant: u8, shape: u8) {
    let loc = Path::from("k");
    let m1 = base_meta(shape);
    let m2 = tamper(&m1, field, variant);
    let a1 = metadata_auth_aad(&loc, &m1);
    let a2 = metadata_auth_aad(&loc, &m2);
    assert!(bytes_differ(&a1, &a2), "two documents that differ in this field have different seals");
    kani::cover!((variant == 0) == (a1.len() == a2.len()), "AAD length changes iff the field's shape (presence/length) changes");
    std::mem::forget((m1, m2, a1, a2, loc));
}

macro_rules! seal {
    ($name:ident, $f:expr, $v:expr, $shape:expr) => {
        #[kani::proof]
        #[kani::unwind(260)]
        fn $name() {
            seal_covers($f, $v, $shape);
        }
    };
}

// Every cover pair cannot be satisfied by every variant (a same-length change never changes the
// AAD length and vice versa), so the variants are grouped by which witness they must satisfy.
// @check id=C09 tier=quick cap=600 role=seal_covers_field harness=c09_seal_size,c09_seal_etag_bytes,c09_seal_otag_bytes,c09_seal_over_bytes,c09_seal_nonce,c09_seal_chunk_size,c09_seal_aad_version,c09_seal_tag0,c09_seal_gen_bytes,c09_seal_commit
// @fns encryption::metadata_auth_aad, encryption::push_bytes, encryption::push_opt_str, encryption::push_opt_u64, encryption::push_opt_u8
// @bound m1 = all fields present with symbolic contents (strings of 1-2 printable bytes, one 16-byte tag, full-width integers); m2 = m1 with one field replaced by a different value of the same shape
// @assume AES-256-GCM is an ideal AEAD: a tag verifies only for the exact (key, nonce, aad) it was made for
seal!(c09_seal_size, F_SIZE, 0, 0);
seal!(c09_seal_etag_bytes, F_ETAG, 0, 0);
seal!(c09_seal_otag_bytes, F_OTAG, 0, 0);
seal!(c09_seal_over_bytes, F_OVER, 0, 0);
seal!(c09_seal_nonce, F_NONCE, 0, 0);
seal!(c09_seal_chunk_size, F_CHUNK, 0, 0);
seal!(c09_seal_aad_version, F_AADV, 0, 0);
seal!(c09_seal_tag0, F_TAG0, 0, 0);
seal!(c09_seal_gen_bytes, F_GEN, 0, 0);
seal!(c09_seal_commit, F_COMMIT, 0, 0);

// presence flips (Some <-> None) and length changes: the "stripping / extending" tampers
// @check id=C09 tier=quick cap=600 role=seal_covers_field_presence harness=c09_seal_etag_stripped,c09_seal_gen_stripped,c09_seal_commit_stripped,c09_seal_tags_truncated,c09_seal_tags_extended,c09_seal_gen_longer
// @fns encryption::metadata_auth_aad, encryption::push_bytes, encryption::push_opt_str, encryption::push_opt_u64, encryption::push_opt_u8
// @bound m1 = all fields present (symbolic contents); m2 = m1 with one optional field removed, the tag list one entry shorter/longer, or a string one byte longer
seal!(c09_seal_etag_stripped, F_ETAG, 1, 0);
seal!(c09_seal_gen_stripped, F_GEN, 1, 0);
seal!(c09_seal_commit_stripped, F_COMMIT, 1, 0);
seal!(c09_seal_tags_truncated, F_TAGS_LEN, 1, 0);
seal!(c09_seal_tags_extended, F_TAGS_LEN, 2, 0);
seal!(c09_seal_gen_longer, F_GEN, 2, 0);

// @check id=C09 tier=thorough cap=600 role=seal_covers_field_presence harness=c09_seal_otag_stripped,c09_seal_over_stripped,c09_seal_chunk_size_stripped,c09_seal_aad_version_stripped,c09_seal_etag_longer,c09_seal_otag_longer,c09_seal_over_longer
// @fns encryption::metadata_auth_aad
// @bound as above, remaining optional fields
seal!(c09_seal_otag_stripped, F_OTAG, 1, 0);
seal!(c09_seal_over_stripped, F_OVER, 1, 0);
seal!(c09_seal_chunk_size_stripped, F_CHUNK, 1, 0);
seal!(c09_seal_aad_version_stripped, F_AADV, 1, 0);
seal!(c09_seal_etag_longer, F_ETAG, 2, 0);
seal!(c09_seal_otag_longer, F_OTAG, 2, 0);
seal!(c09_seal_over_longer, F_OVER, 2, 0);

// other presence shapes of the base document (thorough): every optional field absent (a field
// *added* by the tamper), and the sealed-v1 shape (no generation, no commit time)
// @check id=C09 tier=thorough cap=600 role=seal_covers_field_other_shapes harness=c09_seal_absent_size,c09_seal_absent_etag_added,c09_seal_absent_otag_added,c09_seal_absent_over_added,c09_seal_absent_nonce,c09_seal_absent_chunk_size_added,c09_seal_absent_aad_version_added,c09_seal_absent_tag0,c09_seal_absent_gen_added,c09_seal_absent_commit_added,c09_seal_v1_size,c09_seal_v1_etag_bytes,c09_seal_v1_tag0,c09_seal_v1_gen_added,c09_seal_v1_commit_added,c09_seal_v1_tags_truncated
// @fns encryption::metadata_auth_aad
// @bound base document with every optional field absent / in the sealed-v1 shape; one field changed or added
seal!(c09_seal_absent_size, F_SIZE, 0, 1);
seal!(c09_seal_absent_etag_added, F_ETAG, 1, 1);
seal!(c09_seal_absent_otag_added, F_OTAG, 1, 1);
seal!(c09_seal_absent_over_added, F_OVER, 1, 1);
seal!(c09_seal_absent_nonce, F_NONCE, 0, 1);
seal!(c09_seal_absent_chunk_size_added, F_CHUNK, 1, 1);
seal!(c09_seal_absent_aad_version_added, F_AADV, 1, 1);
seal!(c09_seal_absent_tag0, F_TAG0, 0, 1);
seal!(c09_seal_absent_gen_added, F_GEN, 1, 1);
seal!(c09_seal_absent_commit_added, F_COMMIT, 1, 1);
seal!(c09_seal_v1_size, F_SIZE, 0, 2);
seal!(c09_seal_v1_etag_bytes, F_ETAG, 0, 2);
seal!(c09_seal_v1_tag0, F_TAG0, 0, 2);
seal!(c09_seal_v1_gen_added, F_GEN, 1, 2);
seal!(c09_seal_v1_commit_added, F_COMMIT, 1, 2);
seal!(c09_seal_v1_tags_truncated, F_TAGS_LEN, 1, 2);

// Cross-field ambiguity the length prefixes exist to prevent: adjacent variable-length fields whose
// concatenation is equal.
// @check id=C09 tier=quick cap=600 role=seal_no_cross_field_ambiguity
// @fns encryption::metadata_auth_aad
// @bound e_tag / original_tag of lengths (2,1) vs (1,2) with symbolic bytes constrained to the same concatenation; everything else equal and symbolic
#[kani::proof]
#[kani::unwind(260)]
fn c09_seal_adjacent_strings_do_not_merge() {
    let loc = Path::from("k");
    let m1 = base_meta(0);
    let mut m2 = m1.clone();
    let e1 = m1.e_tag.as_ref().unwrap().as_bytes(); // 2 bytes
    let o1 = m1.original_tag.as_ref().unwrap().as_bytes(); // 1 byte
    // shift the boundary: e2 = e1[0], o2 = e1[1] ++ o1[0]
    m2.e_tag = Some(unsafe { String::from_utf8_unchecked(vec![e1[0]]) });
    m2.original_tag = Some(unsafe { String::from_utf8_unchecked(vec![e1[1], o1[0]]) });
    let a1 = metadata_auth_aad(&loc, &m1);
    let a2 = metadata_auth_aad(&loc, &m2);
    assert!(bytes_differ(&a1, &a2), "moving a byte across a field boundary changes the seal");
    kani::cover!(a1.len() == a2.len(), "same total length");
    std::mem::forget((m1, m2, a1, a2, loc));
}

// The optional tails: a generation whose bytes spell the commit-time tail must not be confusable
// with (shorter generation + commit time).
// @check id=C09 tier=quick cap=600 role=seal_no_tail_ambiguity
// @fns encryption::metadata_auth_aad
// @bound m1: generation = 12 symbolic bytes (any bytes, incl. ".m" + 8), no commit time; m2: generation = 2 symbolic bytes + commit time Some(symbolic); rest equal
#[kani::proof]
#[kani::unwind(260)]
fn c09_seal_optional_tails_do_not_merge() {
    let loc = Path::from("k");
    let mut m1 = base_meta(1);
    let mut m2 = m1.clone();
    let g1: [u8; 12] = kani::any();
    let g2: [u8; 2] = kani::any();
    kani::assume(g1[0] < 0x80 && g1[1] < 0x80 && g1[2] < 0x80 && g1[3] < 0x80 && g1[4] < 0x80 && g1[5] < 0x80);
    kani::assume(g1[6] < 0x80 && g1[7] < 0x80 && g1[8] < 0x80 && g1[9] < 0x80 && g1[10] < 0x80 && g1[11] < 0x80);
    kani::assume(g2[0] < 0x80 && g2[1] < 0x80);
    m1.generation = Some(unsafe { String::from_utf8_unchecked(g1.to_vec()) });
    m1.committed_at_ms = None;
    m2.generation = Some(unsafe { String::from_utf8_unchecked(g2.to_vec()) });
    m2.committed_at_ms = Some(kani::any());
    let a1 = metadata_auth_aad(&loc, &m1);
    let a2 = metadata_auth_aad(&loc, &m2);
    assert!(bytes_differ(&a1, &a2), "generation-only and generation+commit-time documents never share a seal");
    kani::cover!(a1.len() == a2.len(), "same total length (12 = 2 + 2 + 8)");
    kani::cover!(g1[2] == b'.' && g1[3] == b'm', "generation spelling the commit-time marker");
    // generation only vs commit time only
    let mut m3 = m2.clone();
    m3.generation = None;
    let a3 = metadata_auth_aad(&loc, &m3);
    assert!(bytes_differ(&a1, &a3) && bytes_differ(&a2, &a3), "commit-time-only differs from both");
    std::mem::forget((m1, m2, m3, a1, a2, a3, loc));
}

// The logical path is bound: the same document under another key has another seal (object swap).
fn seal_binds_location(p1: &'static str, p2: &'static str) {
    let m = base_meta(1);
    let (l1, l2) = (Path::from(p1), Path::from(p2));
    let a1 = metadata_auth_aad(&l1, &m);
    let a2 = metadata_auth_aad(&l2, &m);
    assert!(bytes_differ(&a1, &a2), "a metadata document moved to another key no longer verifies");
    kani::cover!(a1.len() > 39 + 8 + 8, "seal contains prefix, path and size");
    std::mem::forget((m, a1, a2, l1, l2));
}
// @check id=C09 tier=quick cap=600 role=seal_binds_location
// @fns encryption::metadata_auth_aad
// @bound the same symbolic document (optional fields absent) sealed under two concrete sibling paths "a/b" and "a/c" (Path parsing of symbolic bytes, or a symbolic choice of path, is out of reach: timed out at 300 s)
#[kani::proof]
#[kani::unwind(260)]
fn c09_seal_binds_location_sibling() {
    seal_binds_location("a/b", "a/c");
}
// @check id=C09 tier=quick cap=600 role=seal_binds_location
// @fns encryption::metadata_auth_aad
// @bound as above for paths of different length, "ab" vs "a/b"
#[kani::proof]
#[kani::unwind(260)]
fn c09_seal_binds_location_length() {
    seal_binds_location("ab", "a/b");
}

// (added after seeded change C09-1: the path bound part by part without separators)
// @check id=C09 tier=quick cap=600 role=seal_binds_location
// @fns encryption::metadata_auth_aad
// @bound as above for two paths whose parts concatenate to the same string, "a/bc" vs "ab/c"
#[kani::proof]
#[kani::unwind(260)]
fn c09_seal_binds_location_parts() {
    seal_binds_location("a/bc", "ab/c");
}

// K4 -------------------------------------------------------------------------------------------
// verify_metadata returns before touching the cipher unless both auth fields are present, so the
// pre-cipher decision can be run with a cipher reference that is never dereferenced.
// @check id=C09 tier=quick cap=600 role=downgrade_truth_table
// @fns encryption::verify_metadata, encryption::chunk_aad_version
// @bound every presence combination of (auth_nonce, auth_tag) except (Some,Some); chunk_aad_version None or any u8; generation None/Some; strict symbolic; other contents symbolic
// @stubs alloc::fmt::format -> String::new() (error messages only)
// @assume log::warn! with no logger installed is a no-op
#[kani::proof]
#[kani::unwind(8)]
#[kani::stub(alloc::fmt::format, fmt_stub)]
fn c09_unauthenticated_metadata_downgrade_table() {
    let loc = Path::from("k");
    let mut m = base_meta(1);
    let has_nonce: bool = kani::any();
    let has_tag: bool = kani::any();
    kani::assume(!(has_nonce && has_tag));
    m.auth_nonce = if has_nonce { Some(ByteArray::from(kani::any::<[u8; 12]>())) } else { None };
    m.auth_tag = if has_tag { Some(ByteArray::from(kani::any::<[u8; 16]>())) } else { None };
    m.chunk_aad_version = if kani::any() { Some(kani::any()) } else { None };
    let has_gen: bool = kani::any();
    m.generation = if has_gen { Some(String::from("g")) } else { None };
    let strict: bool = kani::any();
    // never dereferenced on these paths (a must-fail twin / the unit tests cover the sealed path)
    let cipher: Aes256Gcm = unsafe { std::mem::zeroed() };
    let r = verify_metadata(&cipher, &loc, &m, strict);
    let genuine_legacy = !has_nonce && !has_tag && m.chunk_aad_version.is_none() && !has_gen && !strict;
    match &r {
        Ok(MetadataAuth::Legacy) => assert!(genuine_legacy, "unauthenticated metadata is accepted only as genuine legacy: no AAD version, no generation, not strict"),
        Ok(MetadataAuth::Authenticated) => assert!(false, "never Authenticated without both auth fields"),
        Err(_) => assert!(!genuine_legacy, "genuine legacy metadata stays readable in non-strict mode"),
    }
    if has_nonce != has_tag {
        assert!(r.is_err(), "half-stripped authentication fields are rejected");
    }
    kani::cover!(matches!(r, Ok(MetadataAuth::Legacy)), "legacy accepted");
    kani::cover!(r.is_err() && !has_nonce && !has_tag && has_gen && !strict, "stripped seal on a generation document rejected");
    kani::cover!(r.is_err() && !has_nonce && !has_tag && !has_gen && m.chunk_aad_version.is_some() && !strict, "stripped seal with AAD version rejected");
    kani::cover!(r.is_err() && has_nonce && !has_tag, "tag stripped only");
    std::mem::forget((r, m, loc, cipher));
}

// chunk AAD selection: sealed documents default to the bound AAD, unsealed to the legacy (empty)
// one; an unknown version is an error everywhere.
// @check id=C09 tier=quick cap=600 role=chunk_aad_version
// @fns encryption::chunk_aad_version, encryption::chunk_aad_for_meta, encryption::chunk_aad
// @bound chunk_aad_version None or any u8; auth fields present/absent symbolically; chunk size and index full-width
// @stubs alloc::fmt::format -> String::new() (error messages only)
#[kani::proof]
#[kani::unwind(60)]
#[kani::stub(alloc::fmt::format, fmt_stub)]
fn c09_chunk_aad_version_selection() {
    let mut m = base_meta(1);
    let sealed: bool = kani::any();
    if sealed {
        m.auth_nonce = Some(ByteArray::from(kani::any::<[u8; 12]>()));
        m.auth_tag = Some(ByteArray::from(kani::any::<[u8; 16]>()));
    }
    let v: Option<u8> = if kani::any() { Some(kani::any()) } else { None };
    m.chunk_aad_version = v;
    let (cs, ci): (u64, u64) = (kani::any(), kani::any());
    let got = chunk_aad_for_meta(&m, cs, ci);
    let eff = v.unwrap_or(if sealed { 1 } else { 0 });
    match &got {
        Ok(aad) => {
            assert!(eff <= 1, "unknown AAD version is rejected");
            if eff == 1 {
                let want = chunk_aad(cs, ci);
                assert!(!bytes_differ(aad, &want), "bound version binds (chunk_size, index)");
                std::mem::forget(want);
            } else {
                assert!(aad.is_empty(), "legacy version uses the empty AAD");
            }
        }
        Err(_) => assert!(eff > 1, "known versions are accepted"),
    }
    kani::cover!(got.is_ok() && sealed && v.is_none(), "sealed document defaults to the bound AAD");
    kani::cover!(got.is_ok() && !sealed && v.is_none(), "unsealed document defaults to the legacy AAD");
    kani::cover!(got.is_err(), "unknown version");
    std::mem::forget((got, m));
}

// @check id=C09 tier=thorough cap=300 expect=fail role=witness
// @fns encryption::metadata_auth_aad
// @bound vacuity twin: must come back FAILED
#[kani::proof]
#[kani::unwind(260)]
fn c09_witness_must_fail() {
    let loc = Path::from("k");
    let m1 = base_meta(0);
    let m2 = tamper(&m1, F_SIZE, 0);
    let a1 = metadata_auth_aad(&loc, &m1);
    let a2 = metadata_auth_aad(&loc, &m2);
    let d = bytes_differ(&a1, &a2);
    std::mem::forget((m1, m2, a1, a2, loc));
    assert!(!d && false, "reachability witness");
}

// K5: chunk-span arithmetic of get_opts / get_ranges (source slice, DESIGN.md 2.5) -------------------
// The statements computing rr_start / rr_end / start_idx / start_offset (get_opts) and span_start /
// span_end / first_idx (get_ranges) sit inline in async fns; ./check extracts them textually from the
// current encryption.rs into /verif/slices/enc_span.rs on every run and Kani compiles them here.
include!("/verif/slices/enc_span.rs");

/// For a valid request 0 <= start < end <= size: the fetched ciphertext span is chunk aligned, covers
/// the request, stays inside the object, is tight (less than one chunk of slack on either side), and the
/// decryption stream's (start_idx, start_offset) address the first requested byte.
fn span_laws(c: u64, max_size: u64) {
    let (start, end, size): (u64, u64, u64) = (kani::any(), kani::any(), kani::any());
    kani::assume(size <= max_size && start < end && end <= size);
    let meta = SliceMeta { size };
    let (rr_start, rr_end, start_idx, start_offset) = slice_get_opts_span(start..end, c, &meta);
    assert!(rr_start <= start && end <= rr_end && rr_end <= size, "the fetched span covers the request and stays inside the object");
    assert!(rr_start % c == 0 && (rr_end % c == 0 || rr_end == size), "only whole chunks are fetched, so every tag is checked over its full chunk");
    assert!(start - rr_start < c && rr_end - end < c, "no chunk is fetched that the request does not touch");
    assert!(start_idx as u64 * c == rr_start, "the first chunk index is the chunk the span starts at");
    assert!((start_offset as u64) < c && rr_start + start_offset as u64 == start, "the stream starts yielding at the first requested byte");
    assert!(start_offset as u64 + (end - start) <= rr_end - rr_start, "the requested bytes lie inside the decrypted span");
    // get_ranges computes the same span
    let (span_start, span_end, first_idx) = slice_get_ranges_span(start, end, c, &meta);
    assert!(span_start == rr_start && span_end == rr_end && first_idx == start_idx as u64, "get_ranges and get_opts agree on the chunk span");
    kani::cover!(end % c == 0 && end < size, "request ends on a chunk boundary");
    kani::cover!(rr_end == size && (size % c != 0 || c == 1), "span ends in the (short) tail chunk");
    kani::cover!(start_offset > 0 || c == 1, "request starts inside a chunk");
}
macro_rules! span {
    ($name:ident, $c:expr, $max:expr) => {
        #[kani::proof]
        #[kani::unwind(2)]
        fn $name() {
            span_laws($c, $max);
        }
    };
}
// @check id=C09 tier=quick cap=600 needs=slice role=chunk_span_arithmetic harness=c09_span_chunk1,c09_span_chunk7,c09_span_chunk16,c09_span_chunk64k,c09_span_chunk256k
// @fns encryption::EncryptedStore::get_opts (inline span arithmetic, sliced), encryption::EncryptedStore::get_ranges (inline span arithmetic, sliced)
// @bound one chunk size per harness from {1, 7, 16, 65536, 262144} (constant divisors); object size <= 2^21 (<= 64 for chunk sizes 1/7/16), every valid range 0 <= start < end <= size
// @assume the sliced let-statements are the ones the async fns execute (extracted textually, anchored on the binding names)
span!(c09_span_chunk1, 1, 64);
span!(c09_span_chunk7, 7, 64);
span!(c09_span_chunk16, 16, 64);
span!(c09_span_chunk64k, 65536, 1 << 21);
span!(c09_span_chunk256k, 262144, 1 << 21);

// @check id=C09 tier=quick cap=600 needs=slice role=chunk_span_arithmetic_symbolic_divisor
// @fns encryption::EncryptedStore::get_opts (sliced), encryption::EncryptedStore::get_ranges (sliced)
// @bound symbolic chunk size in 1..=16, object size <= 255
#[kani::proof]
#[kani::unwind(2)]
fn c09_span_symbolic_chunk_size() {
    let c: u64 = kani::any();
    kani::assume(c >= 1 && c <= 16);
    span_laws(c, 255);
}
