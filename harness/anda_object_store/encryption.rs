// harness for rs/anda_object_store/src/encryption.rs (mounted by #[cfg(kani)] hook)
