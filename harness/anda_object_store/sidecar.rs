// @module sidecar::verif_kani
// Kani harnesses for rs/anda_object_store/src/sidecar.rs — property C07, kernel K4: the timestamp
// every API reports is a function of the commit point only (committed_at_ms, else the generation's
// embedded timestamp, else none).
use super::*;
include!("/verif/harness/common.rs");

fn hex_digit(n: u8) -> u8 {
    if n < 10 { b'0' + n } else { b'a' + (n - 10) }
}

/// A generation string of the minted shape: 16 hex digits (symbolic nibbles), '-', 8 hex digits.
fn minted(buf: &mut [u8; 25]) -> u64 {
    let mut v: u64 = 0;
    let mut i = 0;
    while i < 16 {
        let n: u8 = kani::any();
        kani::assume(n < 16);
        buf[i] = hex_digit(n);
        v = (v << 4) | n as u64;
        i += 1;
    }
    buf[16] = b'-';
    while i < 24 {
        let n: u8 = kani::any();
        kani::assume(n < 16);
        buf[i + 1] = hex_digit(n);
        i += 1;
    }
    v
}

// @check id=C07 tier=quick cap=900 role=generation_timestamp
// @fns sidecar::generation_timestamp_ms
// @stubs core::slice::memchr::memchr -> naive loop
// @bound every generation of the minted shape: 16 symbolic hex nibbles + '-' + 8 symbolic hex nibbles
#[kani::proof]
#[kani::unwind(27)]
#[kani::stub(core::slice::memchr::memchr, memchr_stub)]
fn c07_generation_timestamp_parses_minted_shape() {
    let mut buf = [0u8; 25];
    let v = minted(&mut buf);
    let s = unsafe { std::str::from_utf8_unchecked(&buf) };
    let got = generation_timestamp_ms(s);
    assert!(got == Some(v), "a minted generation yields exactly its embedded millisecond timestamp");
    kani::cover!(v > u32::MAX as u64, "timestamp above 32 bits");
    kani::cover!(v == 0, "zero timestamp");
}

// Ill-formed shapes: foreign identifiers must yield None (so callers fall back to the backend
// timestamp) — wrong field widths, missing separator, non-hex digit.
// @check id=C07 tier=quick cap=900 role=generation_timestamp_foreign
// @fns sidecar::generation_timestamp_ms
// @stubs core::slice::memchr::memchr -> naive loop
// @bound 25-byte strings with symbolic hex nibbles where (a) the separator is moved by one, (b) there is no separator, (c) one symbolic position of the timestamp holds a non-hex letter g..z
#[kani::proof]
#[kani::unwind(27)]
#[kani::stub(core::slice::memchr::memchr, memchr_stub)]
fn c07_generation_timestamp_rejects_foreign_shapes() {
    let mut buf = [0u8; 25];
    let _ = minted(&mut buf);
    let which: u8 = kani::any();
    kani::assume(which < 3);
    if which == 0 {
        // 15 + '-' + 9
        let d = buf[15];
        buf[15] = b'-';
        buf[16] = d;
    } else if which == 1 {
        buf[16] = b'0';
    } else {
        let pos: usize = kani::any();
        kani::assume(pos < 16);
        let c: u8 = kani::any();
        kani::assume(c >= b'g' && c <= b'z');
        buf[pos] = c;
    }
    let s = unsafe { std::str::from_utf8_unchecked(&buf) };
    assert!(generation_timestamp_ms(s).is_none(), "a foreign generation identifier carries no timestamp");
    kani::cover!(which == 0, "separator moved");
    kani::cover!(which == 1, "no separator");
    kani::cover!(which == 2, "non-hex digit");
}

// @check id=C07 tier=quick cap=600 role=logical_last_modified
// @fns sidecar::logical_last_modified, sidecar::generation_timestamp_ms
// @stubs core::slice::memchr::memchr -> naive loop
// @bound committed_at_ms in {None, 5, 1_700_000_000_000}; generation in {None, two minted strings with different timestamps, a foreign one}; the selection among them is symbolic (the 64-bit calendar arithmetic of chrono does not bit-blast with symbolic milliseconds: timed out at 900 s)
#[kani::proof]
#[kani::unwind(27)]
#[kani::stub(core::slice::memchr::memchr, memchr_stub)]
fn c07_logical_last_modified_is_a_function_of_the_commit_point() {
    const G1: &str = "0000018f3a2b1c4d-0a1b2c3d"; // 0x18f3a2b1c4d ms
    const G2: &str = "0000000000000001-ffffffff";
    let csel: u8 = kani::any();
    let gsel: u8 = kani::any();
    kani::assume(csel < 3 && gsel < 4);
    let committed = match csel {
        0 => None,
        1 => Some(5u64),
        _ => Some(1_700_000_000_000u64),
    };
    // each arm calls the real function with concrete arguments; the *selection* is symbolic
    let got = match gsel {
        0 => logical_last_modified(committed, None),
        1 => logical_last_modified(committed, Some(G1)),
        2 => logical_last_modified(committed, Some(G2)),
        _ => logical_last_modified(committed, Some("legacy-object")),
    };
    let expect_ms: Option<i64> = match (committed, gsel) {
        (Some(c), _) => Some(c as i64),
        (None, 1) => Some(0x18f3a2b1c4d),
        (None, 2) => Some(1),
        _ => None,
    };
    match (got, expect_ms) {
        (Some(d), Some(ms)) => assert!(d.timestamp_millis() == ms, "reported instant == commit timestamp (else generation timestamp)"),
        (None, None) => {}
        _ => assert!(false, "presence of a logical timestamp as documented"),
    }
    kani::cover!(committed.is_some() && gsel == 1, "commit time wins over generation time");
    kani::cover!(committed.is_none() && gsel == 2, "fallback to generation time");
    kani::cover!(got.is_none() && gsel == 3, "foreign generation: none");
}
