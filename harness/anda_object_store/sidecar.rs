// harness for rs/anda_object_store/src/sidecar.rs (mounted by #[cfg(kani)] hook)
