// @module verif_kani
// Kani harnesses for rs/anda_object_store/src/lib.rs — property C07 (decision kernels of the
// store wrappers): check_update_version (CAS), check_get_preconditions (vs. the reference
// store's own GetOptions::check_preconditions), validate_ranges.
use super::*;

include!("/verif/harness/common.rs");

/// An optional token of 0..2 symbolic bytes over {a, b, '*', ',', ' '}: every pair of short tokens, so
/// equal / prefix / different all occur, and so do "*", "a,", ",a", " a" - shapes that precondition
/// *headers* read as wildcard, list or padding and that a CAS token comparison must not (widened after
/// seeded change C07-8, which compared the token with If-Match list syntax).
struct Tok {
    buf: [u8; 2],
    len: usize,
    some: bool,
}
impl Tok {
    fn any() -> Self {
        let b0: u8 = kani::any();
        let b1: u8 = kani::any();
        // letters plus the characters HTTP precondition headers give a meaning to (wildcard, list
        // separator, padding): a CAS token is opaque and must be compared exactly, whatever it contains
        let in_alphabet = |b: u8| b == b'a' || b == b'b' || b == b'*' || b == b',' || b == b' ';
        kani::assume(in_alphabet(b0) && in_alphabet(b1));
        let len: usize = kani::any();
        kani::assume(len <= 2);
        Tok { buf: [b0, b1], len, some: kani::any() }
    }
    fn s(&self) -> &str {
        unsafe { std::str::from_utf8_unchecked(&self.buf[..self.len]) }
    }
    fn opt(&self) -> Option<String> {
        if self.some { Some(self.s().to_string()) } else { None }
    }
    fn same(&self, o: &Tok) -> bool {
        self.some && o.some && self.len == o.len
            && (self.len < 1 || self.buf[0] == o.buf[0])
            && (self.len < 2 || self.buf[1] == o.buf[1])
    }
}

// K1 -------------------------------------------------------------------------------------------
// @check id=C07 tier=quick cap=900 mem=32 role=cas_iff
// @fns check_update_version
// @bound the four Option<String> (current e_tag, current generation, update.e_tag, update.version): each None or a string of 0..2 symbolic bytes over {a, b, '*', ',', ' '}
// @stubs alloc::fmt::format -> String::new() (error messages only); core::slice::memchr::memchr -> naive loop (not called by the current code: it keeps a split-based comparison, as in seeded change C07-8, within reach - 670 s instead of running out of 18 GB)
#[kani::proof]
#[kani::unwind(4)]
#[kani::stub(alloc::fmt::format, fmt_stub)]
#[kani::stub(core::slice::memchr::memchr, memchr_stub)]
fn c07_cas_update_iff_token_is_current() {
    let cur_tag = Tok::any();
    let cur_gen = Tok::any();
    let upd_tag = Tok::any();
    let upd_ver = Tok::any();
    let loc = Path::from("k");
    let current_e_tag = cur_tag.opt();
    let current_generation = cur_gen.opt();
    let update = UpdateVersion { e_tag: upd_tag.opt(), version: upd_ver.opt() };
    let r = check_update_version(&loc, &current_e_tag, &current_generation, &update);
    let expect_ok = upd_tag.some && cur_tag.same(&upd_tag) && (!upd_ver.some || cur_gen.same(&upd_ver));
    assert!(r.is_ok() == expect_ok, "Update succeeds iff the token is the current one (and the version, if given, is the current generation)");
    if let Err(e) = &r {
        assert!(matches!(e, Error::Precondition { .. }), "a failed CAS is a Precondition error");
    }
    if !upd_tag.some {
        assert!(r.is_err(), "a missing token never succeeds");
    }
    if !cur_tag.some {
        assert!(r.is_err(), "None == None is not a match: an object without a token cannot be CAS-updated");
    }
    kani::cover!(r.is_ok() && upd_ver.some, "accepted with version clause");
    kani::cover!(r.is_ok() && !upd_ver.some, "accepted without version clause");
    kani::cover!(r.is_err() && cur_tag.same(&upd_tag), "rejected by the version clause only");
    kani::cover!(r.is_err() && upd_tag.some && cur_tag.some && cur_tag.len == 2 && upd_tag.len == 1 && cur_tag.buf[0] == upd_tag.buf[0], "rejected: token is a strict prefix");
    kani::cover!(r.is_err() && cur_tag.some && upd_tag.some && upd_tag.len == 1 && upd_tag.buf[0] == b'*', "a `*` token is not a wildcard");
    kani::cover!(r.is_err() && cur_tag.some && cur_tag.len == 1 && upd_tag.some && upd_tag.len == 2 && upd_tag.buf[0] == cur_tag.buf[0] && upd_tag.buf[1] == b',', "a list containing the current token is not the current token");
    std::mem::forget((r, update, current_e_tag, current_generation, loc));
}

// K2 -------------------------------------------------------------------------------------------
fn instant(i: u8) -> DateTime<Utc> {
    match i % 3 {
        0 => DateTime::from_timestamp_millis(1_000).unwrap(),
        1 => DateTime::from_timestamp_millis(2_000).unwrap(),
        _ => DateTime::from_timestamp_millis(3_000).unwrap(),
    }
}
fn opt_instant(i: u8) -> Option<DateTime<Utc>> {
    if i % 4 == 3 { None } else { Some(instant(i)) }
}
fn class(r: &Result<()>) -> u8 {
    match r {
        Ok(()) => 0,
        Err(Error::Precondition { .. }) => 1,
        Err(Error::NotModified { .. }) => 2,
        Err(_) => 3,
    }
}
/// current logical tag: None or one symbolic byte in a..c
fn any_current(buf: &mut [u8; 1]) -> Option<&str> {
    let c: u8 = kani::any();
    kani::assume(c >= b'a' && c <= b'c');
    buf[0] = c;
    if kani::any() { Some(unsafe { std::str::from_utf8_unchecked(&buf[..]) }) } else { None }
}

/// One header *shape* (concrete If-Match / If-None-Match texts), everything else symbolic.
fn get_pre_shape(if_match: Option<&'static str>, if_none_match: Option<&'static str>) {
    let loc = Path::from("k");
    let mut buf = [0u8; 1];
    let cur = any_current(&mut buf);
    let lm = instant(kani::any());
    let mut opts = GetOptions::default();
    opts.if_match = if_match.map(|s| s.to_string());
    opts.if_none_match = if_none_match.map(|s| s.to_string());
    opts.if_modified_since = opt_instant(kani::any());
    opts.if_unmodified_since = opt_instant(kani::any());
    let had_ims = opts.if_modified_since;
    let had_ius = opts.if_unmodified_since;
    // reference: the code object_store::memory::InMemory runs
    let reference = opts.check_preconditions(&ObjectMeta {
        location: loc.clone(),
        last_modified: lm,
        size: 1,
        e_tag: cur.map(|s| s.to_string()),
        version: None,
    });
    // (a) regular layout: logical last_modified known
    let mut o2 = opts.clone();
    let got = check_get_preconditions(&loc, &mut o2, cur, Some(lm));
    assert!(class(&reference) == class(&got), "same outcome class as the reference store");
    if got.is_ok() {
        assert!(o2.if_match.is_none() && o2.if_none_match.is_none(), "answered ETag conditions never reach the backend");
        assert!(o2.if_modified_since.is_none() && o2.if_unmodified_since.is_none(), "answered date conditions never reach the backend");
    }
    // (b) pre-0.10 document: no logical timestamp; date conditions are left to the backend
    let mut o3 = opts.clone();
    let got_legacy = check_get_preconditions(&loc, &mut o3, cur, None);
    let mut no_dates = opts.clone();
    no_dates.if_modified_since = None;
    no_dates.if_unmodified_since = None;
    let reference_no_dates = no_dates.check_preconditions(&ObjectMeta {
        location: loc.clone(),
        last_modified: lm,
        size: 1,
        e_tag: cur.map(|s| s.to_string()),
        version: None,
    });
    assert!(class(&reference_no_dates) == class(&got_legacy), "legacy: ETag conditions answered exactly as the reference");
    if got_legacy.is_ok() {
        assert!(o3.if_match.is_none() && o3.if_none_match.is_none(), "legacy: ETag conditions stripped");
        // RFC 9110 13.2.2: a date condition is ignored (and must not be forwarded) when its ETag twin is present
        assert!(o3.if_unmodified_since == if if_match.is_some() { None } else { had_ius }, "legacy: If-Unmodified-Since forwarded iff no If-Match");
        assert!(o3.if_modified_since == if if_none_match.is_some() { None } else { had_ims }, "legacy: If-Modified-Since forwarded iff no If-None-Match");
    }
    kani::cover!(cur.is_some(), "compared with a current tag present");
    kani::cover!(cur.is_none(), "compared with no current tag");
    kani::cover!(had_ims.is_some() && had_ius.is_none(), "only If-Modified-Since given");
    std::mem::forget((reference, got, got_legacy, reference_no_dates, o2, o3, no_dates, opts, loc));
}

macro_rules! shape {
    ($name:ident, $im:expr, $inm:expr) => {
        #[kani::proof]
        #[kani::unwind(8)]
        #[kani::stub(alloc::fmt::format, fmt_stub)]
        #[kani::stub(core::slice::memchr::memchr, memchr_stub)]
        fn $name() {
            get_pre_shape($im, $inm);
        }
    };
}
const STAR: Option<&str> = Some("*");
const A: Option<&str> = Some("a");
const B: Option<&str> = Some("b");
const AB: Option<&str> = Some("a, b");
const BC: Option<&str> = Some("b,c");

// @check id=C07 tier=quick cap=900 role=get_preconditions_vs_reference seedfam=c07_shapes core=1 harness=c07_pre_none_none,c07_pre_a_none,c07_pre_none_ab,c07_pre_star_bc
// @fns check_get_preconditions, object_store::GetOptions::check_preconditions (reference)
// @bound one concrete (If-Match, If-None-Match) text shape per harness out of {None,*,a,b,"a, b","b,c"}^2; current tag None or 1 symbolic byte a..c; last_modified and both date conditions symbolic among 3 instants (+None); both the regular (Some(lm)) and the legacy (None) layout
// @stubs alloc::fmt::format -> String::new() (error messages only)
// @stubs core::slice::memchr::memchr -> naive loop
shape!(c07_pre_none_none, None, None);
shape!(c07_pre_a_none, A, None);
shape!(c07_pre_none_ab, None, AB);
shape!(c07_pre_star_bc, STAR, BC);

// @check id=C07 tier=quick cap=900 role=get_preconditions_vs_reference seedfam=c07_shapes harness=c07_pre_none_star,c07_pre_none_a,c07_pre_none_b,c07_pre_none_bc,c07_pre_star_none,c07_pre_star_star,c07_pre_star_a,c07_pre_star_b,c07_pre_star_ab,c07_pre_a_star,c07_pre_a_a,c07_pre_a_b,c07_pre_a_ab,c07_pre_a_bc,c07_pre_b_none,c07_pre_b_star,c07_pre_b_a,c07_pre_b_b,c07_pre_b_ab,c07_pre_b_bc,c07_pre_ab_none,c07_pre_ab_star,c07_pre_ab_a,c07_pre_ab_b,c07_pre_ab_ab,c07_pre_ab_bc,c07_pre_bc_none,c07_pre_bc_star,c07_pre_bc_a,c07_pre_bc_b,c07_pre_bc_ab,c07_pre_bc_bc
// @fns check_get_preconditions, object_store::GetOptions::check_preconditions (reference)
// @bound as the core shapes; the quick tier runs 4 of these 32 chosen by VERIF_SEED, the thorough tier all
// @stubs alloc::fmt::format -> String::new() (error messages only)
// @stubs core::slice::memchr::memchr -> naive loop
shape!(c07_pre_none_star, None, STAR);
shape!(c07_pre_none_a, None, A);
shape!(c07_pre_none_b, None, B);
shape!(c07_pre_none_bc, None, BC);
shape!(c07_pre_star_none, STAR, None);
shape!(c07_pre_star_star, STAR, STAR);
shape!(c07_pre_star_a, STAR, A);
shape!(c07_pre_star_b, STAR, B);
shape!(c07_pre_star_ab, STAR, AB);
shape!(c07_pre_a_star, A, STAR);
shape!(c07_pre_a_a, A, A);
shape!(c07_pre_a_b, A, B);
shape!(c07_pre_a_ab, A, AB);
shape!(c07_pre_a_bc, A, BC);
shape!(c07_pre_b_none, B, None);
shape!(c07_pre_b_star, B, STAR);
shape!(c07_pre_b_a, B, A);
shape!(c07_pre_b_b, B, B);
shape!(c07_pre_b_ab, B, AB);
shape!(c07_pre_b_bc, B, BC);
shape!(c07_pre_ab_none, AB, None);
shape!(c07_pre_ab_star, AB, STAR);
shape!(c07_pre_ab_a, AB, A);
shape!(c07_pre_ab_b, AB, B);
shape!(c07_pre_ab_ab, AB, AB);
shape!(c07_pre_ab_bc, AB, BC);
shape!(c07_pre_bc_none, BC, None);
shape!(c07_pre_bc_star, BC, STAR);
shape!(c07_pre_bc_a, BC, A);
shape!(c07_pre_bc_b, BC, B);
shape!(c07_pre_bc_ab, BC, AB);
shape!(c07_pre_bc_bc, BC, BC);

// K3 -------------------------------------------------------------------------------------------
// @check id=C07 tier=quick cap=600 role=validate_ranges
// @fns validate_ranges
// @bound 0..2 ranges with full-width symbolic u64 start/end and a full-width symbolic object length
// @stubs alloc::fmt::format -> String::new() (error messages only)
#[kani::proof]
#[kani::unwind(4)]
#[kani::stub(alloc::fmt::format, fmt_stub)]
fn c07_validate_ranges_iff_within_object() {
    let len: u64 = kani::any();
    let n: usize = kani::any();
    kani::assume(n <= 2);
    let r0 = kani::any::<u64>()..kani::any::<u64>();
    let r1 = kani::any::<u64>()..kani::any::<u64>();
    let all = [r0.clone(), r1.clone()];
    let got = validate_ranges("S", &all[..n], len);
    let ok0 = r0.start < r0.end && r0.end <= len;
    let ok1 = r1.start < r1.end && r1.end <= len;
    let expect = (n < 1 || ok0) && (n < 2 || ok1);
    assert!(got.is_ok() == expect, "ranges accepted iff every range is non-empty and inside the object");
    kani::cover!(got.is_ok() && n == 2 && r1.end == len, "end == len accepted");
    kani::cover!(got.is_err() && n == 2 && ok0, "second range decides");
    kani::cover!(got.is_err() && n == 1 && r0.start == r0.end, "empty range rejected");
    std::mem::forget(got);
}

// @check id=C07 tier=thorough cap=300 expect=fail role=witness
// @fns check_get_preconditions
// @bound vacuity twin: must come back FAILED
// @stubs alloc::fmt::format -> String::new() (error messages only)
#[kani::proof]
#[kani::unwind(8)]
#[kani::stub(alloc::fmt::format, fmt_stub)]
#[kani::stub(core::slice::memchr::memchr, memchr_stub)]
fn c07_witness_must_fail() {
    let loc = Path::from("k");
    let mut opts = GetOptions::default();
    opts.if_match = Some("a".to_string());
    let got = check_get_preconditions(&loc, &mut opts, Some("a"), Some(instant(kani::any())));
    std::mem::forget((got, opts, loc));
    assert!(false, "reachability witness");
}
