// harness for rs/anda_object_store/src/lib.rs (mounted by #[cfg(kani)] hook)
