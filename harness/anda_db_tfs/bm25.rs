// @module bm25::verif_kani
// Kani harnesses for rs/anda_db_tfs/src/bm25.rs (mounted as `mod verif_kani` by the
// `#[cfg(kani)]` hook at the end of that file; `super::*` reaches private items).
// Property C11 — ranking-order half: compare_scored_docs is a strict total order with no
// ties between distinct ids; BM25Params::sanitized always yields usable parameters.
use super::*;
use std::cmp::Ordering as O;

type Ix = BM25Index<crate::TokenizerChain>;

fn any_doc() -> (u64, f32) {
    (kani::any(), kani::any())
}

// @check id=C11 tier=quick cap=300 role=total_order
// @fns BM25Index::compare_scored_docs
// @bound three fully symbolic (u64 id, f32 score) pairs: every bit pattern incl. NaN payloads, +-0, +-inf, subnormals
#[kani::proof]
fn c11_compare_total_order() {
    let a = any_doc();
    let b = any_doc();
    let c = any_doc();
    let ab = Ix::compare_scored_docs(&a, &b);
    let ba = Ix::compare_scored_docs(&b, &a);
    let bc = Ix::compare_scored_docs(&b, &c);
    let ac = Ix::compare_scored_docs(&a, &c);
    // antisymmetry
    assert!(ab == ba.reverse(), "antisymmetric");
    // transitivity of <=
    if ab != O::Greater && bc != O::Greater {
        assert!(ac != O::Greater, "transitive");
    }
    // Equal => same document (distinct documents are never tied, so the sorted order is unique)
    if ab == O::Equal {
        assert!(a.0 == b.0, "Equal only for the same id");
    }
    // reflexive
    assert!(Ix::compare_scored_docs(&a, &a) == O::Equal, "reflexive");
    // larger (non-NaN) score sorts first; NaN sorts after every non-NaN
    if !a.1.is_nan() && !b.1.is_nan() && a.1 > b.1 {
        assert!(ab == O::Less, "higher score first");
    }
    if !a.1.is_nan() && b.1.is_nan() {
        assert!(ab == O::Less, "NaN last");
    }
    // equal non-NaN scores of equal bits: the smaller id first
    if !a.1.is_nan() && a.1.to_bits() == b.1.to_bits() && a.0 < b.0 {
        assert!(ab == O::Less, "id tie-break ascending");
    }
    kani::cover!(a.1.is_nan() && b.1.is_nan() && a.0 != b.0, "both NaN, distinct ids");
    kani::cover!(a.1.is_nan() && !b.1.is_nan() && !c.1.is_nan() && b.1 < c.1, "NaN meets two ordered scores");
    kani::cover!(ab == O::Equal, "Equal reached");
    kani::cover!(a.1 == b.1 && a.1.to_bits() != b.1.to_bits(), "+0 vs -0");
}

// Determinism of top-k prefixes follows from the order being total and tie-free; this harness
// states the consequence directly for the two-element case used by select_nth/sort callers:
// the minimum of {a,b} under the comparator does not depend on argument order.
// @check id=C11 tier=quick cap=300 role=min_is_order_independent
// @fns BM25Index::compare_scored_docs
// @bound two fully symbolic (u64,f32) pairs with distinct ids
#[kani::proof]
fn c11_compare_min_independent_of_argument_order() {
    let a = any_doc();
    let b = any_doc();
    kani::assume(a.0 != b.0);
    let first_ab = if Ix::compare_scored_docs(&a, &b) == O::Greater { b } else { a };
    let first_ba = if Ix::compare_scored_docs(&b, &a) == O::Greater { a } else { b };
    assert!(first_ab.0 == first_ba.0, "winner independent of argument order");
    kani::cover!(a.1.is_nan() && b.1.is_nan(), "both NaN");
    kani::cover!(a.1.to_bits() == b.1.to_bits() && !a.1.is_nan(), "same finite score");
}

// @check id=C11 tier=quick cap=300 role=params_sanitized
// @fns BM25Params::sanitized
// @bound k1, b: every f32 bit pattern
#[kani::proof]
fn c11_params_sanitized() {
    let p = BM25Params {
        k1: kani::any(),
        b: kani::any(),
    };
    let (k1, b) = p.sanitized();
    assert!(k1.is_finite() && k1 >= 0.0 && k1 <= BM25Params::MAX_K1, "k1 in [0, MAX_K1]");
    assert!(b.is_finite() && b >= 0.0 && b <= 1.0, "b in [0,1]");
    // in-range parameters are passed through unchanged
    if p.k1.is_finite() && p.k1 >= 0.0 && p.k1 <= BM25Params::MAX_K1 {
        assert!(k1.to_bits() == p.k1.to_bits() || (k1 == 0.0 && p.k1 == 0.0), "valid k1 unchanged");
    }
    if p.b.is_finite() && p.b >= 0.0 && p.b <= 1.0 {
        assert!(b.to_bits() == p.b.to_bits() || (b == 0.0 && p.b == 0.0), "valid b unchanged");
    }
    kani::cover!(p.k1.is_nan(), "NaN k1");
    kani::cover!(p.b == f32::INFINITY, "inf b");
    kani::cover!(p.k1 < 0.0, "negative k1");
}

// @check id=C11 tier=thorough cap=120 expect=fail role=witness
// @fns BM25Index::compare_scored_docs
// @bound vacuity twin: must come back FAILED
#[kani::proof]
fn c11_witness_must_fail() {
    let a = any_doc();
    let b = any_doc();
    let _ = Ix::compare_scored_docs(&a, &b);
    assert!(false, "reachability witness");
}

// Score formula (source slice): "results are ordered by finite, non-negative scores" -------------------
// The Okapi BM25 formula is inline in BM25Index::score_term, which needs an index instance (DashMap /
// FxHashMap: out of reach). ./check extracts the `idf` and `tf_component` statements textually from
// the current bm25.rs on every run (the trailing `.ln()` of idf stripped, so the claim is about ln's
// argument: >= 1 and finite => the logarithm is finite and >= 0).
include!("/verif/slices/bm25_score.rs");

// @check id=C11 tier=quick cap=600 needs=slice_bm25 role=score_formula_idf
// @fns BM25Index::score_term (inline idf expression, sliced)
// @bound document count N and document frequency df as f32 of integers with 1 <= df <= N <= 2^24 (exactly representable)
// @assume the sliced statements are the ones score_term executes (extracted textually, anchored on the binding names); ln is monotone with ln(1) = 0
#[kani::proof]
fn c11_idf_argument_is_at_least_one_and_finite() {
    let (n, d): (u32, u32) = (kani::any(), kani::any());
    kani::assume(d >= 1 && d <= n && n <= (1 << 24));
    let arg = slice_bm25_idf_arg(n as f32, d as f32);
    assert!(arg.is_finite() && arg >= 1.0, "the idf logarithm's argument is finite and >= 1, so idf is finite and non-negative");
    assert!(arg <= 33554434.0, "and bounded by 2N + 2, so idf <= ln(2^25 + 2) < 18");
    kani::cover!(d == n, "term in every document");
    kani::cover!(d == 1 && n == (1 << 24), "rarest term in the largest corpus");
}

// @check id=C11 tier=quick cap=600 needs=slice_bm25 role=score_formula_tf
// @fns BM25Index::score_term (inline tf_component expression, sliced), BM25Params::sanitized
// @bound term frequency 1..2^24, document length 0..2^24 (integers as f32), average length any finite f32 >= 1 (score_term clamps it), k1 / b any f32 passed through the real sanitized()
#[kani::proof]
fn c11_tf_component_is_finite_and_non_negative() {
    let (tf, dl): (u32, u32) = (kani::any(), kani::any());
    kani::assume(tf >= 1 && tf <= (1 << 24) && dl <= (1 << 24));
    let avg: f32 = kani::any();
    kani::assume(avg.is_finite() && avg >= 1.0);
    let p = BM25Params { k1: kani::any(), b: kani::any() };
    let (k1, b) = p.sanitized();
    let c = slice_bm25_tf_component(tf as f32, dl as f32, avg, k1, b);
    assert!(c.is_finite() && c >= 0.0, "the term-frequency component is finite and non-negative for any parameters a query can carry");
    // (an upper bound "c <= k1 + 1" was tried: exactly k1 + 1 is exceeded by an ulp through rounding - a
    // false alarm of the oracle, corrected - and the relaxed bound did not finish in 300 s; the property
    // asks for finite and non-negative only)
    kani::cover!(k1 == 0.0, "k1 = 0: pure presence");
    kani::cover!(b == 1.0 && dl > 1000, "full length normalisation on a long document");
    kani::cover!(p.k1.is_nan(), "NaN parameter sanitized first");
}

// ---- top_k_results (source slice regenerated by the driver on every run) ------------------------
// The real body with its parameter re-typed from FxHashMap<u64, f32> to Vec<(u64, f32)> (hashbrown does
// not finish under CBMC; a map is iterated exactly once, in arbitrary order, with distinct keys - which
// is what the harness makes of the vector). Added after seeded change C11-1 (partition step without
// the id tie-break).
include!("/verif/slices/top_k_tail.rs");

fn permuted(d: [(u64, f32); 3], p: u8) -> Vec<(u64, f32)> {
    match p {
        0 => vec![d[0], d[1], d[2]],
        1 => vec![d[0], d[2], d[1]],
        2 => vec![d[1], d[0], d[2]],
        3 => vec![d[1], d[2], d[0]],
        4 => vec![d[2], d[0], d[1]],
        _ => vec![d[2], d[1], d[0]],
    }
}

macro_rules! top_k_prefix {
    ($name:ident, $k:expr, $p:expr) => {
        #[kani::proof]
        #[kani::unwind(6)]
        fn $name() {
            let s: [f32; 3] = [kani::any(), kani::any(), kani::any()];
            let d = [(7u64, s[0]), (3u64, s[1]), (5u64, s[2])];
            let full = Ix::slice_top_k_results(vec![d[0], d[1], d[2]], 3);
            let got = Ix::slice_top_k_results(permuted(d, $p), $k);
            assert!(full.len() == 3, "asking for everything returns everything");
            assert!(Ix::compare_scored_docs(&full[0], &full[1]) == O::Less && Ix::compare_scored_docs(&full[1], &full[2]) == O::Less, "the full list is strictly ordered by (score desc, NaN last, id asc)");
            assert!(got.len() == if $k < 3 { $k } else { 3 }, "at most k results, all of them when k exceeds the table");
            let mut i = 0;
            while i < got.len() {
                assert!(got[i].0 == full[i].0 && got[i].1.to_bits() == full[i].1.to_bits(), "top-k is the first k of the full ranking, whatever order the score table was iterated in");
                i += 1;
            }
            kani::cover!(s[0] == s[1] && s[1] == s[2], "three-way score tie");
            kani::cover!(s[0].is_nan() && !s[1].is_nan(), "NaN score in the table");
        }
    };
}
// @check id=C11 tier=quick cap=300 needs=slice_topk role=top_k_prefix_and_order_independence harness=c11_top_1_prefix_order_1,c11_top_1_prefix_order_2,c11_top_1_prefix_order_3,c11_top_1_prefix_order_4,c11_top_1_prefix_order_5,c11_top_2_prefix_order_1,c11_top_2_prefix_order_2,c11_top_2_prefix_order_3,c11_top_2_prefix_order_4,c11_top_2_prefix_order_5,c11_top_4_returns_the_whole_ranking
// @fns BM25Index::top_k_results (body verbatim, map parameter re-typed to a vector), BM25Index::compare_scored_docs
// @bound three documents (ids 7, 3, 5) with arbitrary f32 scores (every bit pattern incl. NaN, +-0, inf); top_k 1 and 2 under each of the 5 non-identity iteration orders of the score table, compared with the full ranking (top_k = 3, identity order); top_k = 4. (A symbolic permutation or symbolic top_k did not finish in 300-600 s; concrete ones take seconds.)
// @assume a hash map yields each key once, in some order (the vector has distinct ids; the orders are enumerated)
top_k_prefix!(c11_top_1_prefix_order_1, 1, 1);
top_k_prefix!(c11_top_1_prefix_order_2, 1, 2);
top_k_prefix!(c11_top_1_prefix_order_3, 1, 3);
top_k_prefix!(c11_top_1_prefix_order_4, 1, 4);
top_k_prefix!(c11_top_1_prefix_order_5, 1, 5);
top_k_prefix!(c11_top_2_prefix_order_1, 2, 1);
top_k_prefix!(c11_top_2_prefix_order_2, 2, 2);
top_k_prefix!(c11_top_2_prefix_order_3, 2, 3);
top_k_prefix!(c11_top_2_prefix_order_4, 2, 4);
top_k_prefix!(c11_top_2_prefix_order_5, 2, 5);
top_k_prefix!(c11_top_4_returns_the_whole_ranking, 4, 3);

macro_rules! top_k_prefix4 {
    ($name:ident, $k:expr, $order:expr) => {
        #[kani::proof]
        #[kani::unwind(7)]
        fn $name() {
            let s: [f32; 4] = [kani::any(), kani::any(), kani::any(), kani::any()];
            let d = [(7u64, s[0]), (3u64, s[1]), (5u64, s[2]), (1u64, s[3])];
            let o: [usize; 4] = $order;
            let full = Ix::slice_top_k_results(vec![d[0], d[1], d[2], d[3]], 4);
            let got = Ix::slice_top_k_results(vec![d[o[0]], d[o[1]], d[o[2]], d[o[3]]], $k);
            assert!(full.len() == 4 && got.len() == $k);
            let mut i = 0;
            while i + 1 < full.len() {
                assert!(Ix::compare_scored_docs(&full[i], &full[i + 1]) == O::Less, "the full list is strictly ordered");
                i += 1;
            }
            let mut i = 0;
            while i < got.len() {
                assert!(got[i].0 == full[i].0 && got[i].1.to_bits() == full[i].1.to_bits(), "top-k is the first k of the full ranking, whatever order the score table was iterated in");
                i += 1;
            }
        }
    };
}
// @check id=C11 tier=thorough cap=300 needs=slice_topk role=top_k_prefix_four_documents harness=c11_top_1_of_4_reversed,c11_top_1_of_4_rot1,c11_top_1_of_4_rot2,c11_top_1_of_4_rot3,c11_top_1_of_4_swap_ends,c11_top_1_of_4_swap_mid,c11_top_2_of_4_reversed,c11_top_2_of_4_rot1,c11_top_2_of_4_rot2,c11_top_2_of_4_rot3,c11_top_2_of_4_swap_ends,c11_top_2_of_4_swap_mid,c11_top_3_of_4_reversed,c11_top_3_of_4_rot1,c11_top_3_of_4_rot2,c11_top_3_of_4_rot3,c11_top_3_of_4_swap_ends,c11_top_3_of_4_swap_mid
// @fns BM25Index::top_k_results (body verbatim, map parameter re-typed to a vector), BM25Index::compare_scored_docs
// @bound four documents (ids 7, 3, 5, 1) with arbitrary f32 scores; top_k 1 / 2 / 3 under 6 iteration orders of the score table (reversed, three rotations, two transpositions) against the full ranking
// @assume a hash map yields each key once, in some order
top_k_prefix4!(c11_top_1_of_4_reversed, 1, [3, 2, 1, 0]);
top_k_prefix4!(c11_top_1_of_4_rot1, 1, [1, 2, 3, 0]);
top_k_prefix4!(c11_top_1_of_4_rot2, 1, [2, 3, 0, 1]);
top_k_prefix4!(c11_top_1_of_4_rot3, 1, [3, 0, 1, 2]);
top_k_prefix4!(c11_top_1_of_4_swap_ends, 1, [3, 1, 2, 0]);
top_k_prefix4!(c11_top_1_of_4_swap_mid, 1, [0, 2, 1, 3]);
top_k_prefix4!(c11_top_2_of_4_reversed, 2, [3, 2, 1, 0]);
top_k_prefix4!(c11_top_2_of_4_rot1, 2, [1, 2, 3, 0]);
top_k_prefix4!(c11_top_2_of_4_rot2, 2, [2, 3, 0, 1]);
top_k_prefix4!(c11_top_2_of_4_rot3, 2, [3, 0, 1, 2]);
top_k_prefix4!(c11_top_2_of_4_swap_ends, 2, [3, 1, 2, 0]);
top_k_prefix4!(c11_top_2_of_4_swap_mid, 2, [0, 2, 1, 3]);
top_k_prefix4!(c11_top_3_of_4_reversed, 3, [3, 2, 1, 0]);
top_k_prefix4!(c11_top_3_of_4_rot1, 3, [1, 2, 3, 0]);
top_k_prefix4!(c11_top_3_of_4_rot2, 3, [2, 3, 0, 1]);
top_k_prefix4!(c11_top_3_of_4_rot3, 3, [3, 0, 1, 2]);
top_k_prefix4!(c11_top_3_of_4_swap_ends, 3, [3, 1, 2, 0]);
top_k_prefix4!(c11_top_3_of_4_swap_mid, 3, [0, 2, 1, 3]);
