// @module field::verif_kani
// Kani harnesses for rs/anda_db_schema/src/field.rs — property C13 (type/value decision kernels):
// the acceptance matrix of FieldType::validate_inner, the read-back laws of FieldType::normalize,
// type-driven extraction from decoded CBOR values, and the complexity budget.
// One harness per concrete declared type (a symbolic FieldType stalls symbolic execution); the
// FieldValue is a symbolic choice of variant with full-width payloads.
// Under the format! stub `is_f32_read_back`'s JSON branch (format!("{f}").parse()) always answers
// "no": these harnesses decide the CBOR (exact widening) half of the F32 rule only.
use super::*;
include!("/verif/harness/common.rs");

/// scalar variants with full-width symbolic payloads
fn any_scalar() -> FieldValue {
    match kani::any::<u8>() % 6 {
        0 => FieldValue::Bool(kani::any()),
        1 => FieldValue::I64(kani::any()),
        2 => FieldValue::U64(kani::any()),
        3 => FieldValue::F64(kani::any()),
        4 => FieldValue::F32(kani::any()),
        _ => FieldValue::Null,
    }
}
/// discriminant + payload bits, so "unchanged" can be stated without PartialEq (NaN != NaN)
fn sig(v: &FieldValue) -> (u8, u64) {
    match v {
        FieldValue::Bool(b) => (0, *b as u64),
        FieldValue::I64(i) => (1, *i as u64),
        FieldValue::U64(u) => (2, *u),
        FieldValue::F64(f) => (3, f.to_bits()),
        FieldValue::F32(f) => (4, f.to_bits() as u64),
        FieldValue::Null => (5, 0),
        FieldValue::Bytes(_) => (6, 0),
        FieldValue::Text(_) => (7, 0),
        FieldValue::Json(_) => (8, 0),
        FieldValue::Vector(_) => (9, 0),
        FieldValue::Array(_) => (10, 0),
        FieldValue::Map(_) => (11, 0),
    }
}
/// exact-widening half of the F32 read-back rule, written from the documentation
fn widens_exactly(v: f64) -> bool {
    if v.is_nan() {
        return false;
    }
    let f = v as f32;
    !(f.is_infinite() && v.is_finite()) && (f as f64) == v
}
/// the documented acceptance rule for scalar declared types over scalar values
fn accepts_scalar(t: u8, v: &FieldValue) -> bool {
    match (t, v) {
        (0, FieldValue::Bool(_)) => true,
        (1, FieldValue::I64(_)) => true,
        (1, FieldValue::U64(u)) => *u <= i64::MAX as u64,
        (2, FieldValue::U64(_)) => true,
        (3, FieldValue::F64(f)) => !f.is_nan(),
        (4, FieldValue::F32(f)) => !f.is_nan(),
        (4, FieldValue::F64(f)) => widens_exactly(*f),
        _ => false,
    }
}
fn scalar_type(t: u8) -> FieldType {
    match t {
        0 => FieldType::Bool,
        1 => FieldType::I64,
        2 => FieldType::U64,
        3 => FieldType::F64,
        _ => FieldType::F32,
    }
}

/// K1 + K2 for one scalar declared type against every scalar value.
fn scalar_row(t: u8) {
    let ty = scalar_type(t);
    let mut v = any_scalar();
    let before = sig(&v);
    let accepted = ty.validate_inner(&v).is_ok();
    let expect = accepts_scalar(t, &v);
    assert!(accepted == expect, "accepted iff the value is of the declared variant (non-NaN floats) or one of the documented read-back shapes");
    ty.normalize(&mut v);
    let after = sig(&v);
    if expect {
        // read-back shapes fold into the declared variant with the payload preserved
        match t {
            1 => assert!(after.0 == 1 && after.1 == before.1, "I64: U64(v <= i64::MAX) normalizes to I64(v)"),
            4 => {
                assert!(after.0 == 4, "F32: accepted values normalize to F32");
                if before.0 == 3 {
                    let x = f64::from_bits(before.1);
                    assert!(after.1 == (x as f32).to_bits() as u64 && (f32::from_bits(after.1 as u32) as f64) == x, "F32: exact widening narrows back to the very same f32 (sign of zero, subnormals, infinities included)");
                } else {
                    assert!(after.1 == before.1, "F32: canonical value untouched");
                }
            }
            _ => assert!(after == before, "canonical value untouched"),
        }
        assert!(ty.validate_inner(&v).is_ok(), "a normalized accepted value validates");
    } else {
        assert!(after == before, "a value that is not a read-back shape is left unchanged");
        assert!(ty.validate_inner(&v).is_err(), "normalization never turns an invalid value into a valid one");
    }
    // idempotent
    ty.normalize(&mut v);
    assert!(sig(&v) == after, "normalize is idempotent");
    // Null is accepted only under Option
    if before.0 == 5 {
        assert!(!accepted, "Null is rejected by a non-Option type");
    }
    kani::cover!(expect && before.0 != after.0, "a read-back shape was folded");
    kani::cover!(!expect && before.0 != 5, "a non-null value rejected");
    kani::cover!(expect && before.0 == after.0, "canonical value accepted");
    std::mem::forget((v, ty));
}
macro_rules! row {
    ($name:ident, $t:expr) => {
        #[kani::proof]
        #[kani::unwind(1)]
        #[kani::stub(alloc::fmt::format, fmt_stub)]
        fn $name() {
            scalar_row($t);
        }
    };
}
// Bool / U64 / F64 never fold a read-back shape, so the first cover would be unsatisfiable there;
// they get their own body without it.
fn scalar_row_plain(t: u8) {
    let ty = scalar_type(t);
    let mut v = any_scalar();
    let before = sig(&v);
    let accepted = ty.validate_inner(&v).is_ok();
    let expect = accepts_scalar(t, &v);
    assert!(accepted == expect, "accepted iff the value is of the declared variant (non-NaN floats)");
    ty.normalize(&mut v);
    assert!(sig(&v) == before, "nothing to normalize for this type: value unchanged");
    if before.0 == 5 {
        assert!(!accepted, "Null is rejected by a non-Option type");
    }
    kani::cover!(expect, "canonical value accepted");
    kani::cover!(!expect && before.0 != 5, "a non-null value rejected");
    std::mem::forget((v, ty));
}
macro_rules! row_plain {
    ($name:ident, $t:expr) => {
        #[kani::proof]
        #[kani::unwind(1)]
        #[kani::stub(alloc::fmt::format, fmt_stub)]
        fn $name() {
            scalar_row_plain($t);
        }
    };
}

// @check id=C13 tier=quick cap=900 role=acceptance_matrix_scalars harness=c13_row_i64,c13_row_f32,c13_row_bool,c13_row_u64,c13_row_f64
// @fns FieldType::validate_inner, FieldType::normalize, FieldType::normalize_at, field::is_f32_read_back
// @bound declared type concrete per harness (Bool, I64, U64, F64, F32); value a symbolic choice among Bool / I64 / U64 / F64 / F32 / Null with full-width payloads (every i64, u64, f32 and f64 bit pattern)
// @stubs alloc::fmt::format -> String::new() (error messages; cuts the JSON shortest-decimal branch of is_f32_read_back)
row!(c13_row_i64, 1);
row!(c13_row_f32, 4);
row_plain!(c13_row_bool, 0);
row_plain!(c13_row_u64, 2);
row_plain!(c13_row_f64, 3);

// heap-carrying values against scalar types, and scalar values against heap types: always rejected
// @check id=C13 tier=quick cap=900 role=acceptance_matrix_cross_kind
// @fns FieldType::validate_inner
// @bound declared Bytes / Text / Vector vs every scalar value (symbolic variant, full-width payload); declared I64 and F32 vs Bytes[b] and Text("t")
// @stubs alloc::fmt::format -> String::new()
#[kani::proof]
#[kani::unwind(2)]
#[kani::stub(alloc::fmt::format, fmt_stub)]
fn c13_cross_kind_is_rejected() {
    let s = any_scalar();
    assert!(FieldType::Bytes.validate_inner(&s).is_err(), "Bytes rejects every scalar");
    assert!(FieldType::Text.validate_inner(&s).is_err(), "Text rejects every scalar");
    assert!(FieldType::Vector.validate_inner(&s).is_err(), "Vector rejects every scalar");
    let h0 = FieldValue::Bytes(vec![kani::any()]);
    let h1 = FieldValue::Text(String::from("t"));
    assert!(FieldType::I64.validate_inner(&h0).is_err() && FieldType::I64.validate_inner(&h1).is_err(), "I64 rejects bytes and text");
    assert!(FieldType::F32.validate_inner(&h0).is_err() && FieldType::F32.validate_inner(&h1).is_err(), "F32 rejects bytes and text");
    assert!(FieldType::Bytes.validate_inner(&h0).is_ok() && FieldType::Bytes.validate_inner(&h1).is_err(), "Bytes accepts exactly Bytes");
    assert!(FieldType::Text.validate_inner(&h1).is_ok() && FieldType::Text.validate_inner(&h0).is_err(), "Text accepts exactly Text");
    kani::cover!(sig(&s).0 == 2, "U64 offered to Bytes/Text/Vector");
    kani::cover!(sig(&s).0 == 5, "Null offered");
    std::mem::forget((h0, h1, s));
}

// Option(T): Null or whatever T accepts. (normalize on a value whose *variant* is symbolic is only
// affordable at unwind(1): the overwritten value's recursive drop glue is unfolded to the unwind bound.
// Composite normalization is therefore decided on concrete variants with symbolic payloads.)
// @check id=C13 tier=quick cap=900 role=option_wrapping
// @fns FieldType::validate_inner
// @bound declared Option(I64); value any scalar (Bool / I64 / U64 / F64 / F32 / Null) with full-width payload
// @stubs alloc::fmt::format -> String::new()
#[kani::proof]
#[kani::unwind(2)]
#[kani::stub(alloc::fmt::format, fmt_stub)]
fn c13_option_accepts_null_or_inner() {
    let v = any_scalar();
    let is_null = sig(&v).0 == 5;
    let ty = FieldType::Option(Box::new(FieldType::I64));
    let expect = is_null || accepts_scalar(1, &v);
    assert!(ty.validate_inner(&v).is_ok() == expect, "Option(I64) accepts Null or what I64 accepts, nothing else");
    kani::cover!(is_null, "null accepted");
    kani::cover!(expect && sig(&v).0 == 2, "U64 read-back accepted inside Option(I64)");
    kani::cover!(!expect, "rejected");
    std::mem::forget((v, ty));
}

// @check id=C13 tier=quick cap=900 role=option_normalize
// @fns FieldType::normalize, FieldType::normalize_at
// @bound declared Option(I64); values U64(any), I64(any), Null (one concrete variant per call, symbolic payload)
// @stubs alloc::fmt::format -> String::new()
#[kani::proof]
#[kani::unwind(2)]
#[kani::stub(alloc::fmt::format, fmt_stub)]
fn c13_option_normalizes_inner_read_back() {
    let ty = FieldType::Option(Box::new(FieldType::I64));
    let u: u64 = kani::any();
    let mut v = FieldValue::U64(u);
    ty.normalize(&mut v);
    assert!(if u <= i64::MAX as u64 { sig(&v) == (1, u) } else { sig(&v) == (2, u) }, "U64 read-back folded to I64 inside Option iff it fits");
    let i: i64 = kani::any();
    let mut w = FieldValue::I64(i);
    ty.normalize(&mut w);
    assert!(sig(&w) == (1, i as u64), "canonical value unchanged");
    let mut n = FieldValue::Null;
    ty.normalize(&mut n);
    assert!(sig(&n).0 == 5, "Null unchanged");
    kani::cover!(u > i64::MAX as u64, "too large to fold");
    kani::cover!(u <= i64::MAX as u64, "folded");
    std::mem::forget((v, w, n, ty));
}

fn any_elem() -> FieldValue {
    match kani::any::<u8>() % 4 {
        0 => FieldValue::I64(kani::any()),
        1 => FieldValue::U64(kani::any()),
        2 => FieldValue::Bool(kani::any()),
        _ => FieldValue::Null,
    }
}
fn elems(n: usize) -> Vec<FieldValue> {
    let mut v = Vec::with_capacity(3);
    let mut i = 0;
    while i < n {
        v.push(any_elem());
        i += 1;
    }
    v
}

// homogeneous array Array[I64]
// @check id=C13 tier=quick cap=900 role=array_homogeneous
// @fns FieldType::validate_inner
// @bound declared Array[I64]; value an Array of 2 elements, each a symbolic choice among I64 / U64 / Bool / Null with full-width payloads; plus the empty array
// @stubs alloc::fmt::format -> String::new()
#[kani::proof]
#[kani::unwind(3)]
#[kani::stub(alloc::fmt::format, fmt_stub)]
fn c13_array_of_i64_elementwise() {
    let ty = FieldType::Array(vec![FieldType::I64]);
    let (e0, e1) = (any_elem(), any_elem());
    let (ok0, ok1) = (accepts_scalar(1, &e0), accepts_scalar(1, &e1));
    let s1 = sig(&e1);
    let v = FieldValue::Array(vec![e0, e1]);
    assert!(ty.validate_inner(&v).is_ok() == (ok0 && ok1), "a homogeneous array is accepted iff every element is");
    let empty = FieldValue::Array(Vec::new());
    assert!(ty.validate_inner(&empty).is_ok(), "the empty array is accepted");
    kani::cover!(ok0 && !ok1, "second element decides");
    kani::cover!(ok0 && ok1 && s1.0 == 2, "accepted with a read-back element");
    std::mem::forget((v, ty, empty));
}

// @check id=C13 tier=quick cap=900 role=array_normalize
// @fns FieldType::normalize, FieldType::normalize_at
// @bound declared Array[I64]; value [U64(any), I64(any)] and [Null, U64(any)] (concrete variants, symbolic payloads)
// @stubs alloc::fmt::format -> String::new()
#[kani::proof]
#[kani::unwind(3)]
#[kani::stub(alloc::fmt::format, fmt_stub)]
fn c13_array_normalizes_elementwise() {
    let ty = FieldType::Array(vec![FieldType::I64]);
    let (u, i, u2): (u64, i64, u64) = (kani::any(), kani::any(), kani::any());
    let mut v = FieldValue::Array(vec![FieldValue::U64(u), FieldValue::I64(i)]);
    ty.normalize(&mut v);
    if let FieldValue::Array(items) = &v {
        assert!(items.len() == 2, "length preserved");
        assert!(if u <= i64::MAX as u64 { sig(&items[0]) == (1, u) } else { sig(&items[0]) == (2, u) }, "element 0 folded iff it fits");
        assert!(sig(&items[1]) == (1, i as u64), "element 1 unchanged");
    } else {
        assert!(false, "still an array");
    }
    let mut w = FieldValue::Array(vec![FieldValue::Null, FieldValue::U64(u2)]);
    ty.normalize(&mut w);
    if let FieldValue::Array(items) = &w {
        assert!(sig(&items[0]).0 == 5, "a Null element is left alone");
        assert!(if u2 <= i64::MAX as u64 { sig(&items[1]) == (1, u2) } else { sig(&items[1]) == (2, u2) }, "normalization is applied to every position");
    } else {
        assert!(false, "still an array");
    }
    kani::cover!(u > i64::MAX as u64 && u2 <= i64::MAX as u64, "one folded, one not");
    std::mem::forget((v, w, ty));
}

// tuple array Array[I64, U64]: arity is exact
// @check id=C13 tier=quick cap=900 role=array_tuple_arity
// @fns FieldType::validate_inner
// @bound declared Array[I64, U64]; value an Array of 0..3 elements, each a symbolic choice among I64 / U64 / Bool / Null
// @stubs alloc::fmt::format -> String::new()
#[kani::proof]
#[kani::unwind(4)]
#[kani::stub(alloc::fmt::format, fmt_stub)]
fn c13_tuple_array_arity_is_exact() {
    let ty = FieldType::Array(vec![FieldType::I64, FieldType::U64]);
    let n: usize = kani::any();
    kani::assume(n <= 3);
    let items = elems(n);
    let expect = n == 2 && accepts_scalar(1, &items[0]) && accepts_scalar(2, &items[1]);
    let v = FieldValue::Array(items);
    assert!(ty.validate_inner(&v).is_ok() == expect, "a tuple array needs exactly the declared arity and each position its own type");
    kani::cover!(expect, "accepted pair");
    kani::cover!(n == 3, "too long");
    kani::cover!(n == 1, "too short");
    std::mem::forget((v, ty));
}

// Vector: canonical Vector, or the read-back shape Array of U64 bf16 bit patterns
// @check id=C13 tier=quick cap=900 role=vector_read_back
// @fns FieldType::validate_inner
// @bound declared Vector; value an Array of 2 elements (each I64 / U64 / Bool / Null, full width)
// @stubs alloc::fmt::format -> String::new()
#[kani::proof]
#[kani::unwind(4)]
#[kani::stub(alloc::fmt::format, fmt_stub)]
fn c13_vector_accepts_bf16_bit_arrays_only() {
    let ty = FieldType::Vector;
    let (e0, e1) = (any_elem(), any_elem());
    let is_bits = |v: &FieldValue| matches!(v, FieldValue::U64(u) if *u <= 0xFFFF);
    let all_bits = is_bits(&e0) && is_bits(&e1);
    let first_ok = is_bits(&e0);
    let v = FieldValue::Array(vec![e0, e1]);
    assert!(ty.validate_inner(&v).is_ok() == all_bits, "Vector accepts an array iff every element is a u16 bit pattern; a larger integer is rejected, not truncated");
    kani::cover!(all_bits, "read-back array accepted");
    kani::cover!(!all_bits && first_ok, "second element too large or of another kind");
    std::mem::forget((v, ty));
}

// @check id=C13 tier=quick cap=900 role=vector_normalize
// @fns FieldType::normalize
// @bound declared Vector; value [U64(any), U64(any)]
// @stubs alloc::fmt::format -> String::new()
#[kani::proof]
#[kani::unwind(4)]
#[kani::stub(alloc::fmt::format, fmt_stub)]
fn c13_vector_normalizes_bit_arrays() {
    let (b0, b1): (u64, u64) = (kani::any(), kani::any());
    let mut v = FieldValue::Array(vec![FieldValue::U64(b0), FieldValue::U64(b1)]);
    FieldType::Vector.normalize(&mut v);
    let all_bits = b0 <= 0xFFFF && b1 <= 0xFFFF;
    match &v {
        FieldValue::Vector(x) => {
            assert!(all_bits, "only the read-back shape is folded");
            assert!(x.len() == 2 && x[0].to_bits() as u64 == b0 && x[1].to_bits() as u64 == b1, "bit patterns preserved (non-finite ones included)");
        }
        FieldValue::Array(_) => assert!(!all_bits, "an array that is not a read-back shape is left as it is"),
        _ => assert!(false, "no other variant appears"),
    }
    kani::cover!(all_bits && (b0 & 0x7f80) == 0x7f80, "non-finite pattern folded");
    kani::cover!(!all_bits && b0 <= 0xFFFF, "second element too large");
    std::mem::forget(v);
}

// @check id=C13 tier=quick cap=900 role=vector_canonical
// @fns FieldType::validate_inner, FieldType::normalize
// @bound declared Vector; value a Vector of one bf16 with any bit pattern
// @stubs alloc::fmt::format -> String::new()
#[kani::proof]
#[kani::unwind(3)]
#[kani::stub(alloc::fmt::format, fmt_stub)]
fn c13_vector_canonical_value_untouched() {
    let bits: u16 = kani::any();
    let mut v = FieldValue::Vector(vec![bf16::from_bits(bits)]);
    assert!(FieldType::Vector.validate_inner(&v).is_ok(), "a Vector is accepted by Vector");
    FieldType::Vector.normalize(&mut v);
    assert!(matches!(&v, FieldValue::Vector(x) if x.len() == 1 && x[0].to_bits() == bits), "canonical vector untouched, NaN bit patterns included");
    kani::cover!((bits & 0x7f80) == 0x7f80, "non-finite bf16 pattern");
    kani::cover!(bits == 0x8000, "negative zero");
    std::mem::forget(v);
}

// K3: type-driven extraction from decoded CBOR values ------------------------------------------
fn any_int() -> cbor2::value::Integer {
    if kani::any() { cbor2::value::Integer::from(kani::any::<i64>()) } else { cbor2::value::Integer::from(kani::any::<u64>()) }
}
fn int_value(i: cbor2::value::Integer) -> i128 {
    i128::from(i)
}

// @check id=C13 tier=quick cap=900 role=extract_integers
// @fns FieldValue::i64_from, FieldValue::u64_from, FieldValue::bf16_from, FieldType::extract, FieldType::extract_at
// @bound CBOR Integer: every i64 and every u64 value (the whole range -2^63 .. 2^64-1)
// @stubs alloc::fmt::format -> String::new()
#[kani::proof]
#[kani::unwind(2)]
#[kani::stub(alloc::fmt::format, fmt_stub)]
fn c13_extract_integers_exact_or_error() {
    let i = any_int();
    let x = int_value(i);
    let r = FieldType::I64.extract(Cbor::Integer(i));
    match &r {
        Ok(FieldValue::I64(v)) => assert!(*v as i128 == x, "I64 extracted exactly"),
        Ok(_) => assert!(false, "I64 extraction yields I64"),
        Err(_) => assert!(x > i64::MAX as i128 || x < i64::MIN as i128, "I64 rejects only out-of-range integers"),
    }
    let r2 = FieldType::U64.extract(Cbor::Integer(i));
    match &r2 {
        Ok(FieldValue::U64(v)) => assert!(*v as i128 == x, "U64 extracted exactly"),
        Ok(_) => assert!(false, "U64 extraction yields U64"),
        Err(_) => assert!(x < 0, "U64 rejects only negative integers"),
    }
    let r3 = FieldValue::bf16_from(Cbor::Integer(i));
    match &r3 {
        Ok(b) => assert!(b.to_bits() as i128 == x, "bf16 bit pattern extracted exactly"),
        Err(_) => assert!(x < 0 || x > 0xFFFF, "bf16 rejects (does not truncate) anything outside u16"),
    }
    // accepted-on-read implies valid
    if let Ok(v) = &r {
        assert!(FieldType::I64.validate_inner(v).is_ok(), "an extracted I64 validates");
    }
    kani::cover!(r.is_err() && r2.is_ok(), "above i64::MAX");
    kani::cover!(r.is_ok() && r2.is_err(), "negative");
    kani::cover!(r3.is_ok() && x == 0xFFFF, "largest bf16 pattern");
    std::mem::forget((r, r2, r3));
}

// @check id=C13 tier=quick cap=900 role=extract_floats
// @fns FieldValue::f32_from, FieldValue::f64_from, FieldType::extract
// @bound CBOR Float: every f64 bit pattern
// @stubs alloc::fmt::format -> String::new()
#[kani::proof]
#[kani::unwind(2)]
#[kani::stub(alloc::fmt::format, fmt_stub)]
fn c13_extract_floats_reject_nan_and_overflow() {
    let f: f64 = kani::any();
    let r = FieldType::F32.extract(Cbor::Float(f));
    match &r {
        Ok(FieldValue::F32(v)) => {
            assert!(!f.is_nan(), "NaN is never extracted");
            assert!(!(v.is_infinite() && f.is_finite()), "a finite value is never turned into an infinity");
            assert!(v.to_bits() == (f as f32).to_bits(), "nearest f32");
            assert!(FieldType::F32.validate_inner(&FieldValue::F32(*v)).is_ok(), "an extracted F32 validates");
        }
        Ok(_) => assert!(false, "F32 extraction yields F32"),
        Err(_) => assert!(f.is_nan() || ((f as f32).is_infinite() && f.is_finite()), "F32 rejects only NaN and finite values beyond the f32 range"),
    }
    let r2 = FieldType::F64.extract(Cbor::Float(f));
    match &r2 {
        Ok(FieldValue::F64(v)) => assert!(v.to_bits() == f.to_bits() && !f.is_nan(), "F64 extracted bit-exactly"),
        Ok(_) => assert!(false, "F64 extraction yields F64"),
        Err(_) => assert!(f.is_nan(), "F64 rejects only NaN"),
    }
    kani::cover!(r.is_err() && !f.is_nan(), "finite overflow rejected");
    kani::cover!(matches!(&r, Ok(FieldValue::F32(v)) if v.is_infinite()), "explicit infinity passes");
    std::mem::forget((r, r2));
}

// a stored f32 read back through CBOR (exact widening) is always accepted and narrows back bit-exactly
// @check id=C13 tier=quick cap=900 role=f32_cbor_read_back
// @fns FieldType::validate_inner, FieldType::normalize, field::is_f32_read_back
// @bound every non-NaN f32 bit pattern (negative zero, subnormals, infinities)
// @stubs alloc::fmt::format -> String::new() (cuts the JSON shortest-decimal branch)
#[kani::proof]
#[kani::unwind(1)]
#[kani::stub(alloc::fmt::format, fmt_stub)]
fn c13_f32_widened_by_cbor_reads_back_exactly() {
    let x: f32 = kani::any();
    kani::assume(!x.is_nan());
    let mut back = FieldValue::F64(x as f64);
    assert!(FieldType::F32.validate_inner(&back).is_ok(), "the exact widening of any non-NaN f32 is a valid F32 read-back");
    FieldType::F32.normalize(&mut back);
    assert!(matches!(&back, FieldValue::F32(y) if y.to_bits() == x.to_bits()), "and normalizes to the very same f32");
    kani::cover!(x == 0.0 && x.is_sign_negative(), "negative zero");
    kani::cover!(x.is_infinite(), "infinity");
    kani::cover!(x != 0.0 && x.abs() < f32::MIN_POSITIVE, "subnormal");
    std::mem::forget(back);
}

// wrong CBOR kind for a scalar type is an error, never a coercion
// @check id=C13 tier=quick cap=900 role=extract_kind_mismatch
// @fns FieldType::extract, FieldValue::bool_from, FieldValue::i64_from, FieldValue::u64_from, FieldValue::f64_from, FieldValue::f32_from
// @bound CBOR value a symbolic choice among Bool(any) / Integer(any i64 or u64) / Float(any) / Null; declared type each scalar type
// @stubs alloc::fmt::format -> String::new()
#[kani::proof]
#[kani::unwind(1)]
#[kani::stub(alloc::fmt::format, fmt_stub)]
fn c13_extract_never_coerces_between_kinds() {
    let k: u8 = kani::any();
    kani::assume(k < 4);
    let b: bool = kani::any();
    let i = any_int();
    let f: f64 = kani::any();
    let mk = |k: u8| match k {
        0 => Cbor::Bool(b),
        1 => Cbor::Integer(i),
        2 => Cbor::Float(f),
        _ => Cbor::Null,
    };
    let rb = FieldType::Bool.extract(mk(k));
    let ri = FieldType::I64.extract(mk(k));
    let ru = FieldType::U64.extract(mk(k));
    let rf = FieldType::F64.extract(mk(k));
    let r32 = FieldType::F32.extract(mk(k));
    assert!(rb.is_ok() == (k == 0), "Bool only from a CBOR bool");
    assert!(!ri.is_ok() || k == 1, "I64 only from a CBOR integer (no float, bool or null coercion)");
    assert!(!ru.is_ok() || k == 1, "U64 only from a CBOR integer");
    assert!(!rf.is_ok() || k == 2, "F64 only from a CBOR float (no integer coercion)");
    assert!(!r32.is_ok() || k == 2, "F32 only from a CBOR float");
    kani::cover!(k == 3, "null offered");
    kani::cover!(k == 2 && rf.is_ok(), "float accepted by F64");
    kani::cover!(k == 1 && ri.is_ok() && ru.is_ok(), "integer accepted by both integer types");
    std::mem::forget((rb, ri, ru, rf, r32));
}

// untyped positions (heterogeneous arrays, free-form maps): the variant inferred at write time must be
// the one the read-back visitor produces from the same stored bytes (CBOR major type 0 -> U64, major
// type 1 -> I64), or "what validation accepts, storage returns unchanged" fails for that value. Added
// after seeded change C13-7 (0 inferred as I64).
// @check id=C13 tier=quick cap=600 role=untyped_integer_inference
// @fns FieldValue::try_from, FieldValue::try_from_at, FieldValue::u64_from, FieldValue::i64_from
// @bound CBOR Integer: every i64 and every u64 value (the whole range -2^63 .. 2^64-1), no declared type
// @stubs alloc::fmt::format -> String::new()
#[kani::proof]
#[kani::unwind(2)]
#[kani::stub(alloc::fmt::format, fmt_stub)]
fn c13_untyped_integer_is_inferred_as_the_read_back_variant() {
    let i = any_int();
    let x = int_value(i);
    let r = FieldValue::try_from(Cbor::Integer(i));
    match &r {
        Ok(FieldValue::U64(v)) => assert!(x >= 0 && *v as i128 == x, "a non-negative integer - zero included - is U64, exactly"),
        Ok(FieldValue::I64(v)) => assert!(x < 0 && *v as i128 == x, "a negative integer is I64, exactly"),
        Ok(_) => assert!(false, "an integer is inferred as an integer"),
        Err(_) => assert!(false, "every CBOR integer in -2^63 .. 2^64-1 has an inferred value"),
    }
    kani::cover!(x == 0, "zero");
    kani::cover!(x < 0, "negative");
    kani::cover!(x > i64::MAX as i128, "above i64::MAX");
    std::mem::forget(r);
}

// (consumes a Vec<Cbor>: the recursive drop glue of cbor2::Value is unfolded to the unwind bound; > 240 s)
// @check id=C13 tier=thorough cap=600 role=extract_bytes_from_int_array
// @fns FieldValue::bytes_from
// @bound CBOR array of 2 integers, each any i64 / u64: accepted iff every element is in 0..=255, bytes preserved in order
// @stubs alloc::fmt::format -> String::new()
#[kani::proof]
#[kani::unwind(4)]
#[kani::stub(alloc::fmt::format, fmt_stub)]
fn c13_bytes_from_integer_array_checks_every_element() {
    let (i0, i1) = (any_int(), any_int());
    let (x0, x1) = (int_value(i0), int_value(i1));
    let r = FieldValue::bytes_from(Cbor::Array(vec![Cbor::Integer(i0), Cbor::Integer(i1)]));
    let in_range = |x: i128| x >= 0 && x <= 255;
    let expect = in_range(x0) && in_range(x1);
    assert!(r.is_ok() == expect, "an integer array is bytes iff every element fits a byte");
    if let Ok(FieldValue::Bytes(b)) = &r {
        assert!(b.len() == 2 && b[0] as i128 == x0 && b[1] as i128 == x1, "bytes preserved in order");
    }
    kani::cover!(in_range(x0) && !in_range(x1), "second element out of range");
    kani::cover!(expect, "two bytes");
    std::mem::forget(r);
}

// ---- permitted schema upgrades keep old documents readable ------------------------------------------
// "documents written under an older schema remain readable after every permitted upgrade": whenever
// is_compatible_upgrade_of permits (new <- old), every value the old type accepted is accepted by the new
// one. The oracle is the real validator itself (two runs), so it states the property, not a table.
// Added after seeded change C13-8 (Option(T) -> T became a permitted upgrade).
fn opt(t: FieldType) -> FieldType {
    FieldType::Option(Box::new(t))
}
macro_rules! upgrade {
    ($name:ident, $new:expr, $old:expr $(, permitted = $cover:literal)?) => {
        #[kani::proof]
        #[kani::unwind(2)]
        #[kani::stub(alloc::fmt::format, fmt_stub)]
        fn $name() {
            let (new, old): (FieldType, FieldType) = ($new, $old);
            let v = any_scalar();
            let permitted = new.is_compatible_upgrade_of(&old);
            let old_ok = old.validate_inner(&v).is_ok();
            let new_ok = new.validate_inner(&v).is_ok();
            if permitted && old_ok {
                assert!(new_ok, "a permitted upgrade never turns a stored value that validated under the old type into an invalid one");
            }
            $(assert!(permitted, $cover);)?
            kani::cover!(old_ok, "a value the old type accepted");
            kani::cover!(!new_ok, "a value the new type refuses");
            std::mem::forget((new, old, v));
        }
    };
}
// @check id=C13 tier=quick cap=300 role=permitted_upgrade_keeps_values_valid harness=c13_upgrade_i64_same,c13_upgrade_opt_i64_same,c13_upgrade_i64_from_opt_i64,c13_upgrade_opt_i64_from_i64,c13_upgrade_f32_same,c13_upgrade_opt_f32_from_opt_f32,c13_upgrade_f32_from_opt_f32,c13_upgrade_i64_from_u64,c13_upgrade_u64_from_i64,c13_upgrade_f64_from_f32,c13_upgrade_bool_from_opt_bool
// @fns field::FieldType::is_compatible_upgrade_of, field::FieldType::validate_inner
// @bound concrete (new, old) type pairs over I64 / U64 / F32 / F64 / Bool and their Option wrappers (identity, Option on both sides, Option dropped, Option added, neighbouring numeric kinds); value any scalar (Bool / I64 / U64 / F64 / F32 / Null, full-width payloads). Array / Map shapes and multi-step upgrade chains are not covered
// @stubs alloc::fmt::format -> String::new()
upgrade!(c13_upgrade_i64_same, FieldType::I64, FieldType::I64, permitted = "an unchanged type is a permitted upgrade");
upgrade!(c13_upgrade_opt_i64_same, opt(FieldType::I64), opt(FieldType::I64), permitted = "an unchanged optional type is a permitted upgrade");
upgrade!(c13_upgrade_i64_from_opt_i64, FieldType::I64, opt(FieldType::I64));
upgrade!(c13_upgrade_opt_i64_from_i64, opt(FieldType::I64), FieldType::I64);
upgrade!(c13_upgrade_f32_same, FieldType::F32, FieldType::F32, permitted = "an unchanged type is a permitted upgrade");
upgrade!(c13_upgrade_opt_f32_from_opt_f32, opt(FieldType::F32), opt(FieldType::F32), permitted = "an unchanged optional type is a permitted upgrade");
upgrade!(c13_upgrade_f32_from_opt_f32, FieldType::F32, opt(FieldType::F32));
upgrade!(c13_upgrade_i64_from_u64, FieldType::I64, FieldType::U64);
upgrade!(c13_upgrade_u64_from_i64, FieldType::U64, FieldType::I64);
upgrade!(c13_upgrade_f64_from_f32, FieldType::F64, FieldType::F32);
upgrade!(c13_upgrade_bool_from_opt_bool, FieldType::Bool, opt(FieldType::Bool));

// @check id=C13 tier=thorough cap=600 expect=fail role=witness
// @fns FieldType::validate_inner
// @bound vacuity twin: must come back FAILED
#[kani::proof]
#[kani::unwind(1)]
#[kani::stub(alloc::fmt::format, fmt_stub)]
fn c13_witness_must_fail() {
    let v = any_scalar();
    let ok = FieldType::I64.validate_inner(&v).is_ok();
    std::mem::forget(v);
    assert!(!ok && ok, "reachability witness");
}
