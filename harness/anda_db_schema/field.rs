// harness for rs/anda_db_schema/src/field.rs (mounted by #[cfg(kani)] hook)
