// Shared by every harness module via include!("/verif/harness/common.rs").
// Stubs are part of each claim and are listed in the `@stubs` annotations / evidence.

/// `alloc::fmt::format` -> empty string. Only error *messages* change; no assertion reads one.
#[allow(dead_code)]
fn fmt_stub(_: std::fmt::Arguments<'_>) -> String {
    String::new()
}

/// `core::slice::memchr::memchr` -> the naive loop it is specified to equal. The std version picks
/// word-at-a-time paths by pointer *alignment*, which is symbolic under CBMC and multiplies paths
/// (measured: `str::split_once` on a concrete 25-byte string did not finish in 200 s; with this
/// stub 0.7 s). Assumes std's memchr is correct.
#[allow(dead_code)]
fn memchr_stub(x: u8, text: &[u8]) -> Option<usize> {
    let mut i = 0;
    while i < text.len() {
        if text[i] == x {
            return Some(i);
        }
        i += 1;
    }
    None
}

/// `core::slice::memchr::memrchr` -> naive reverse loop (same reason).
#[allow(dead_code)]
fn memrchr_stub(x: u8, text: &[u8]) -> Option<usize> {
    let mut i = text.len();
    while i > 0 {
        i -= 1;
        if text[i] == x {
            return Some(i);
        }
    }
    None
}
