// @module hnsw::verif_kani
// Kani harnesses for rs/anda_db_hnsw/src/hnsw.rs — property C12: validate_loaded_node (what a loaded
// node blob must satisfy before it joins the graph) and HnswConfig::validate / normalized.
use super::*;
include!("/verif/harness/common.rs");

// @check id=C12 tier=quick cap=900 role=validate_loaded_node
// @fns HnswIndex::validate_loaded_node
// @bound node with 0..2 coordinates (any bf16 bit pattern), layer 0..2, 0..2 neighbour layers with 0..1 edge each (any bf16 distance bits); expected id, dimension (0..3) and max_layers symbolic
// @stubs alloc::fmt::format -> String::new() (error messages only)
#[kani::proof]
#[kani::unwind(4)]
#[kani::stub(alloc::fmt::format, fmt_stub)]
fn c12_validate_loaded_node_iff_well_formed() {
    let id: u64 = kani::any();
    let expected: u64 = kani::any();
    let layer: u8 = kani::any();
    kani::assume(layer <= 2);
    let max_layers: u8 = kani::any();
    let dim: usize = kani::any();
    kani::assume(dim <= 3);
    let vlen: usize = kani::any();
    kani::assume(vlen <= 2);
    let vbits: [u16; 2] = kani::any();
    let mut vector = Vec::with_capacity(2);
    let mut i = 0;
    while i < vlen {
        vector.push(bf16::from_bits(vbits[i]));
        i += 1;
    }
    let nl: usize = kani::any();
    kani::assume(nl <= 2);
    let ebits: [u16; 2] = kani::any();
    let has_edge: [bool; 2] = kani::any();
    let mut neighbors: Vec<SmallVec<[(u64, bf16); 64]>> = Vec::with_capacity(2);
    let mut j = 0;
    while j < nl {
        let mut sv = SmallVec::new();
        if has_edge[j] {
            sv.push((7u64, bf16::from_bits(ebits[j])));
        }
        neighbors.push(sv);
        j += 1;
    }
    let node = HnswNode { id, layer, vector, neighbors, version: 0 };
    let r = HnswIndex::validate_loaded_node("n", expected, dim, max_layers, &node);
    let fin = |b: u16| (b & 0x7f80) != 0x7f80;
    let want = id == expected
        && vlen == dim
        && layer < max_layers
        && nl == layer as usize + 1
        && (vlen < 1 || fin(vbits[0]))
        && (vlen < 2 || fin(vbits[1]))
        && (nl < 1 || !has_edge[0] || fin(ebits[0]))
        && (nl < 2 || !has_edge[1] || fin(ebits[1]));
    assert!(r.is_ok() == want, "a loaded node is accepted iff id, dimension, layer and neighbour table are consistent and every coordinate and edge distance is finite");
    kani::cover!(want && vlen == 2 && nl == 2, "accepted two-layer node");
    kani::cover!(!want && id == expected && vlen == dim && layer < max_layers && nl == layer as usize + 1, "rejected for a non-finite value only");
    std::mem::forget((r, node));
}

// @check id=C12 tier=quick cap=600 role=config_normalized_validates
// @fns HnswConfig::normalized, HnswConfig::validate
// @bound every numeric field symbolic at full width, scale_factor None or any f64 bit pattern
// @stubs alloc::fmt::format -> String::new() (error messages only)
#[kani::proof]
#[kani::unwind(4)]
#[kani::stub(alloc::fmt::format, fmt_stub)]
fn c12_config_normalized_always_validates_and_validate_is_exact() {
    let cfg = HnswConfig {
        dimension: kani::any(),
        max_layers: kani::any(),
        max_connections: kani::any(),
        ef_construction: kani::any(),
        ef_search: kani::any(),
        distance_metric: DistanceMetric::Euclidean,
        scale_factor: if kani::any() { Some(kani::any()) } else { None },
        select_neighbors_strategy: SelectNeighborsStrategy::Heuristic,
        reconnect_on_delete: kani::any(),
    };
    let ok = cfg.validate("c");
    let want = cfg.dimension >= 1 && cfg.dimension <= HnswConfig::MAX_DIMENSION
        && cfg.max_layers >= 1 && cfg.max_layers <= 64
        && cfg.max_connections >= 2 && cfg.max_connections <= 128
        && cfg.ef_construction >= 1 && cfg.ef_construction <= 4096
        && cfg.ef_search >= 1 && cfg.ef_search <= 4096
        && match cfg.scale_factor { None => true, Some(s) => s.is_finite() && s > 0.0 };
    assert!(ok.is_ok() == want, "validate accepts exactly the documented ranges");
    let n = cfg.clone().normalized();
    let nok = n.validate("c");
    assert!(nok.is_ok(), "a normalized config always validates");
    if want {
        assert!(n.dimension == cfg.dimension && n.max_layers == cfg.max_layers && n.max_connections == cfg.max_connections
            && n.ef_construction == cfg.ef_construction && n.ef_search == cfg.ef_search, "a valid config is left unchanged by normalization");
    }
    kani::cover!(want, "valid config");
    kani::cover!(!want && cfg.dimension == 0, "zero dimension");
    kani::cover!(matches!(cfg.scale_factor, Some(s) if s.is_nan()), "NaN scale factor");
    std::mem::forget((ok, nok));
}

// Layer-0 beam width (source slice): search_attempt computes `ef` inline and then truncates the beam's
// result to top_k; a beam narrower than min(top_k, MAX_EF_SEARCH) cannot return k results, which the
// recall floors for k in 1..n+1 rest on (seeded change C12-2 swapped min and max). The statement is
// extracted from the current hnsw.rs on every run.
include!("/verif/slices/beam_width.rs");

// @check id=C12 tier=quick cap=300 needs=slice_beam role=beam_width
// @fns HnswIndex::search_attempt (inline beam-width statement, sliced)
// @bound ef_search in 1..=MAX_EF_SEARCH (what HnswConfig::normalized / validate admit), top_k any usize
// @assume the sliced statement is the one search_attempt executes (extracted textually, anchored on `let ef`)
#[kani::proof]
fn c12_beam_is_wide_enough_for_top_k() {
    let (ef_search, top_k): (usize, usize) = (kani::any(), kani::any());
    kani::assume(ef_search >= 1 && ef_search <= HnswConfig::MAX_EF_SEARCH);
    let ef = slice_beam_width(ef_search, top_k);
    let want_k = if top_k < HnswConfig::MAX_EF_SEARCH { top_k } else { HnswConfig::MAX_EF_SEARCH };
    assert!(ef >= want_k, "the beam can hold top_k results (up to the documented cap)");
    assert!(ef >= ef_search, "and is never narrower than the configured breadth");
    assert!(ef <= HnswConfig::MAX_EF_SEARCH, "nor wider than the cap, however large top_k is");
    kani::cover!(top_k > ef_search && top_k < HnswConfig::MAX_EF_SEARCH, "top_k above ef_search widens the beam");
    kani::cover!(top_k > HnswConfig::MAX_EF_SEARCH, "huge top_k capped");
}
