// harness for rs/anda_db_hnsw/src/hnsw.rs (mounted by #[cfg(kani)] hook)
