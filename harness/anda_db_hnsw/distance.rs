// @module distance::verif_kani
// Kani harnesses for rs/anda_db_hnsw/src/distance.rs — property C12: "each reported distance equals
// the configured metric between the query and that stored vector". On vectors whose coordinates are
// small integers every partial sum is exactly representable in bf16/f32, so the 8-lane kernels
// (block path, remainder path, bf16 promotion) must equal exact integer arithmetic computed by the
// harness. Symmetry / identity laws are decided over arbitrary finite f32.
use super::*;

/// D symbolic integer coordinates in [-r, r]; returns (a, b) as f32 plus the exact integer values of
/// sum|a-b|, sum a*b, sum (a-b)^2.
fn grid<const D: usize>(r: i8) -> ([f32; D], [f32; D], i32, i32, i32) {
    let ai: [i8; D] = kani::any();
    let bi: [i8; D] = kani::any();
    let mut a = [0f32; D];
    let mut b = [0f32; D];
    let (mut man, mut dot, mut sq) = (0i32, 0i32, 0i32);
    let mut i = 0;
    while i < D {
        kani::assume(ai[i] >= -r && ai[i] <= r && bi[i] >= -r && bi[i] <= r);
        a[i] = ai[i] as f32;
        b[i] = bi[i] as f32;
        let d = ai[i] as i32 - bi[i] as i32;
        man += d.abs();
        dot += ai[i] as i32 * bi[i] as i32;
        sq += d * d;
        i += 1;
    }
    (a, b, man, dot, sq)
}
fn to_bf16<const D: usize>(x: &[f32; D]) -> [bf16; D] {
    let mut o = [bf16::ZERO; D];
    let mut i = 0;
    while i < D {
        o[i] = bf16::from_f32(x[i]);
        i += 1;
    }
    o
}

macro_rules! grid_exact {
    ($name:ident, $d:expr, $r:expr, $unwind:expr, man=$man:expr, ip=$ip:expr, euc=$euc:expr) => {
        #[kani::proof]
        #[kani::unwind($unwind)]
        fn $name() {
            let (a, b, man, dot, sq) = grid::<$d>($r);
            if $man {
                assert!(DistanceMetric::Manhattan.compute_f32(&a, &b).unwrap() == man as f32, "Manhattan == sum |a_i - b_i| (exact on the integer grid)");
            }
            if $ip {
                assert!(DistanceMetric::InnerProduct.compute_f32(&a, &b).unwrap() == -(dot as f32), "InnerProduct == -sum a_i b_i (exact on the integer grid)");
            }
            if $euc {
                let e = DistanceMetric::Euclidean.compute_f32(&a, &b).unwrap();
                assert!(e == (sq as f32).sqrt(), "Euclidean == sqrt(sum (a_i - b_i)^2) (exact sum on the integer grid)");
                assert!(e >= 0.0, "non-negative");
            }
            kani::cover!(man > 0 && dot != 0, "non-trivial vectors");
            kani::cover!(man == 0, "identical vectors");
        }
    };
}

// @check id=C12 tier=quick cap=900 role=grid_exactness harness=c12_grid_d1,c12_grid_d3,c12_grid_d8_manhattan,c12_grid_d9_manhattan,c12_grid_d9_inner_product
// @fns DistanceMetric::compute_f32, distance::manhattan_distance, distance::inner_product, distance::euclidean_distance, distance::check_dimensions
// @bound dimension D in {1, 3 (remainder path only), 8 (one full lane block), 9 (block + remainder)}; coordinates all integers in [-4,4] (D<=3) or [-2,2] (D>=8); the metric equals exact integer arithmetic
grid_exact!(c12_grid_d1, 1, 4, 11, man = true, ip = true, euc = true);
grid_exact!(c12_grid_d3, 3, 4, 11, man = true, ip = true, euc = true);
grid_exact!(c12_grid_d8_manhattan, 8, 2, 11, man = true, ip = false, euc = false);
grid_exact!(c12_grid_d9_manhattan, 9, 2, 12, man = true, ip = false, euc = false);
grid_exact!(c12_grid_d9_inner_product, 9, 2, 12, man = false, ip = true, euc = false);

// @check id=C12 tier=thorough cap=1500 role=grid_exactness harness=c12_grid_d8_inner_product,c12_grid_d8_euclidean,c12_grid_d9_euclidean,c12_grid_d3_wide
// @fns DistanceMetric::compute_f32, distance::manhattan_distance, distance::inner_product, distance::euclidean_distance
// @bound D = 8 / 9 for the remaining metrics at [-2,2]; D = 3 at [-8,8]
grid_exact!(c12_grid_d8_inner_product, 8, 2, 11, man = false, ip = true, euc = false);
grid_exact!(c12_grid_d8_euclidean, 8, 2, 11, man = false, ip = false, euc = true);
grid_exact!(c12_grid_d9_euclidean, 9, 2, 12, man = false, ip = false, euc = true);
grid_exact!(c12_grid_d3_wide, 3, 8, 11, man = true, ip = true, euc = true);

// the three entry points agree (bf16 stored vectors, f32 queries, mixed): small integers are exactly
// representable in bf16, so promotion must not change anything and the mixed path must not quantize
// the query differently.
// @check id=C12 tier=quick cap=900 role=entry_points_agree
// @fns DistanceMetric::compute, DistanceMetric::compute_f32, DistanceMetric::compute_mixed, distance::AsF32::as_f32
// @bound D = 3, integer coordinates in [-4,4]; metrics Manhattan, InnerProduct, Euclidean
#[kani::proof]
#[kani::unwind(11)]
fn c12_entry_points_agree_d3() {
    let (a, b, man, dot, _sq) = grid::<3>(4);
    let (ah, bh) = (to_bf16(&a), to_bf16(&b));
    let m = DistanceMetric::Manhattan;
    let f = m.compute_f32(&a, &b).unwrap();
    assert!(m.compute(&ah, &bh).unwrap() == f && m.compute_mixed(&a, &bh).unwrap() == f && f == man as f32, "Manhattan: bf16 / f32 / mixed entry points agree");
    let p = DistanceMetric::InnerProduct;
    let f = p.compute_f32(&a, &b).unwrap();
    assert!(p.compute(&ah, &bh).unwrap() == f && p.compute_mixed(&a, &bh).unwrap() == f && f == -(dot as f32), "InnerProduct: entry points agree");
    let e = DistanceMetric::Euclidean;
    let f = e.compute_f32(&a, &b).unwrap();
    assert!(e.compute(&ah, &bh).unwrap() == f && e.compute_mixed(&a, &bh).unwrap() == f, "Euclidean: entry points agree");
    kani::cover!(man > 3, "non-trivial");
}

// the mixed path keeps the query at f32 precision: a query coordinate that bf16 cannot represent
// (1 + 2^-10) must still contribute its exact value.
// @check id=C12 tier=quick cap=600 role=mixed_does_not_quantize_query
// @fns DistanceMetric::compute_mixed
// @bound D = 1 and D = 9: query coordinate q = k + 2^-10 for integer k in [-4,4] (not representable in bf16), stored coordinate an integer in [-4,4]
#[kani::proof]
#[kani::unwind(12)]
fn c12_mixed_path_keeps_query_precision() {
    let (k, s): (i8, i8) = (kani::any(), kani::any());
    kani::assume(k >= -4 && k <= 4 && s >= -4 && s <= 4);
    let q = k as f32 + 0.0009765625; // 2^-10
    let stored = bf16::from_f32(s as f32);
    let d = DistanceMetric::Manhattan.compute_mixed(&[q], &[stored]).unwrap();
    assert!(d == (q - s as f32).abs(), "distance uses the unquantized query");
    let mut qa = [0f32; 9];
    let mut sa = [bf16::ZERO; 9];
    qa[8] = q;
    sa[8] = stored;
    qa[0] = q;
    sa[0] = stored;
    let d9 = DistanceMetric::Manhattan.compute_mixed(&qa, &sa).unwrap();
    assert!(d9 == (q - s as f32).abs() * 2.0, "lane block and remainder both use the unquantized query");
    kani::cover!(k == s, "query next to the stored value");
}

// symmetry and identity over arbitrary finite f32 (not just the grid). Symmetry of Euclidean and
// InnerProduct over arbitrary f32 asks the SAT solver to prove multiplier commutativity / sign
// symmetry bit for bit and did not finish in 900 s; those two are decided on the integer grid below.
// @check id=C12 tier=quick cap=900 role=symmetry_identity
// @fns DistanceMetric::compute_f32, distance::manhattan_distance, distance::euclidean_distance
// @bound D = 2, every finite f32 coordinate: Manhattan d(a,b) and d(b,a) are bit-identical (or both NaN) and non-negative; d(a,a) = 0 for Manhattan and Euclidean
#[kani::proof]
#[kani::unwind(11)]
fn c12_symmetry_and_identity_any_finite_f32_d2() {
    let a: [f32; 2] = kani::any();
    let b: [f32; 2] = kani::any();
    kani::assume(a[0].is_finite() && a[1].is_finite() && b[0].is_finite() && b[1].is_finite());
    let same = |x: f32, y: f32| x.to_bits() == y.to_bits() || (x.is_nan() && y.is_nan());
    let m = DistanceMetric::Manhattan;
    let e = DistanceMetric::Euclidean;
    let dm = m.compute_f32(&a, &b).unwrap();
    assert!(same(dm, m.compute_f32(&b, &a).unwrap()), "Manhattan symmetric");
    assert!(m.compute_f32(&a, &a).unwrap() == 0.0 && e.compute_f32(&a, &a).unwrap() == 0.0, "d(a,a) == 0");
    assert!(dm >= 0.0 || dm.is_nan(), "Manhattan non-negative");
    kani::cover!(dm.is_infinite(), "overflowing difference");
    kani::cover!(dm > 0.0 && dm < 1.0, "small distance");
}

// @check id=C12 tier=quick cap=900 role=symmetry_grid
// @fns DistanceMetric::compute_f32, distance::inner_product, distance::euclidean_distance
// @bound D = 3, integer coordinates in [-4,4]: Euclidean and InnerProduct are bit-symmetric
#[kani::proof]
#[kani::unwind(11)]
fn c12_euclidean_and_inner_product_symmetric_on_grid_d3() {
    let (a, b, man, _dot, _sq) = grid::<3>(4);
    let e = DistanceMetric::Euclidean;
    let p = DistanceMetric::InnerProduct;
    assert!(e.compute_f32(&a, &b).unwrap().to_bits() == e.compute_f32(&b, &a).unwrap().to_bits(), "Euclidean symmetric");
    let (ab, ba) = (p.compute_f32(&a, &b).unwrap(), p.compute_f32(&b, &a).unwrap());
    assert!(ab == ba, "InnerProduct symmetric");
    kani::cover!(man > 2, "distinct vectors");
}

// Cosine: range, zero-vector rule, symmetry, identity — on the integer grid (the fully symbolic f32
// division/sqrt query did not finish in the design probes)
// @check id=C12 tier=quick cap=900 role=cosine_laws
// @fns DistanceMetric::compute_f32, distance::cosine_distance
// @bound D = 2, integer coordinates in [-4,4]
#[kani::proof]
#[kani::unwind(11)]
fn c12_cosine_range_zero_vector_symmetry_d2() {
    let (a, b, _man, dot, _sq) = grid::<2>(4);
    let c = DistanceMetric::Cosine;
    let ab = c.compute_f32(&a, &b).unwrap();
    let ba = c.compute_f32(&b, &a).unwrap();
    assert!(ab >= 0.0 && ab <= 2.0, "cosine distance within [0,2]");
    assert!(ab.to_bits() == ba.to_bits(), "cosine symmetric");
    let a_zero = a[0] == 0.0 && a[1] == 0.0;
    let b_zero = b[0] == 0.0 && b[1] == 0.0;
    if a_zero || b_zero {
        assert!(ab == 1.0, "a zero vector is at distance 1 from everything");
    } else {
        // sign of the dot product decides the side of 1
        if dot > 0 {
            assert!(ab < 1.0, "acute angle: below 1");
        }
        if dot < 0 {
            assert!(ab > 1.0, "obtuse angle: above 1");
        }
        if dot == 0 {
            assert!(ab == 1.0, "orthogonal: exactly 1");
        }
    }
    if !a_zero {
        let aa = c.compute_f32(&a, &a).unwrap();
        assert!(aa >= 0.0 && aa <= 1.0e-6, "cos distance of a vector to itself is ~0");
    }
    kani::cover!(a_zero && !b_zero, "zero query");
    kani::cover!(dot < 0, "obtuse");
}

// the same laws through the 8-lane block path (D = 9: one block + remainder), smaller grid
// @check id=C12 tier=thorough cap=1500 role=cosine_laws_block_path
// @fns DistanceMetric::compute_f32, distance::cosine_distance
// @bound D = 9, integer coordinates in [-1,1]
#[kani::proof]
#[kani::unwind(12)]
fn c12_cosine_laws_through_the_lane_block_d9() {
    let (a, b, _man, dot, _sq) = grid::<9>(1);
    let c = DistanceMetric::Cosine;
    let ab = c.compute_f32(&a, &b).unwrap();
    let ba = c.compute_f32(&b, &a).unwrap();
    assert!(ab >= 0.0 && ab <= 2.0, "cosine distance within [0,2]");
    assert!(ab.to_bits() == ba.to_bits(), "cosine symmetric");
    let zero = |v: &[f32; 9]| { let mut z = true; let mut i = 0; while i < 9 { if v[i] != 0.0 { z = false; } i += 1; } z };
    if zero(&a) || zero(&b) {
        assert!(ab == 1.0, "a zero vector is at distance 1 from everything");
    } else {
        if dot > 0 {
            assert!(ab < 1.0, "acute angle: below 1");
        }
        if dot < 0 {
            assert!(ab > 1.0, "obtuse angle: above 1");
        }
        if dot == 0 {
            assert!(ab == 1.0, "orthogonal: exactly 1");
        }
    }
    kani::cover!(dot < 0 && a[8] != 0.0 && b[8] != 0.0, "obtuse, remainder lane in use");
    kani::cover!(zero(&a) && !zero(&b), "zero query");
}

// @check id=C12 tier=quick cap=600 role=dimension_mismatch
// @fns DistanceMetric::compute_f32, DistanceMetric::compute, DistanceMetric::compute_mixed, distance::check_dimensions
// @bound slices of symbolic lengths 0..3 (any metric): Err iff the lengths differ
#[kani::proof]
#[kani::unwind(11)]
fn c12_dimension_mismatch_is_an_error() {
    let a = [1.0f32; 3];
    let b = [2.0f32; 3];
    let h = [bf16::ONE; 3];
    let (la, lb): (usize, usize) = (kani::any(), kani::any());
    kani::assume(la <= 3 && lb <= 3);
    let metric = match kani::any::<u8>() % 4 {
        0 => DistanceMetric::Euclidean,
        1 => DistanceMetric::Cosine,
        2 => DistanceMetric::InnerProduct,
        _ => DistanceMetric::Manhattan,
    };
    let r = metric.compute_f32(&a[..la], &b[..lb]);
    assert!(r.is_err() == (la != lb), "compute_f32: Err iff dimensions differ");
    let r2 = metric.compute_mixed(&a[..la], &h[..lb]);
    assert!(r2.is_err() == (la != lb), "compute_mixed: Err iff dimensions differ");
    let r3 = metric.compute(&h[..la], &h[..lb]);
    assert!(r3.is_err() == (la != lb), "compute: Err iff dimensions differ");
    kani::cover!(la == lb && la == 3, "equal dimensions");
    kani::cover!(la != lb, "mismatch");
    std::mem::forget((r, r2, r3));
}

// @check id=C12 tier=thorough cap=300 expect=fail role=witness
// @fns DistanceMetric::compute_f32
// @bound vacuity twin: must come back FAILED
#[kani::proof]
#[kani::unwind(11)]
fn c12_witness_must_fail() {
    let (a, b, man, _dot, _sq) = grid::<3>(4);
    let d = DistanceMetric::Manhattan.compute_f32(&a, &b).unwrap();
    assert!(d != man as f32, "reachability witness");
}

// Layer assignment (source slice): LayerGen::generate draws from the thread RNG, which Kani cannot
// execute; its final clamp is what keeps every assigned layer loadable (validate_loaded_node insists on
// layer < max_layers) and never skips more than one layer. ./check extracts the tail expression of
// generate() from the current distance.rs on every run.
include!("/verif/slices/layer_clamp.rs");

// @check id=C12 tier=quick cap=300 needs=slice_layer role=layer_clamp
// @fns distance::LayerGen::generate (final clamp expression, sliced), distance::LayerGen::new_with_scale (max_level >= 1)
// @bound every drawn level, current maximum layer and max_level >= 1 (all u8)
// @assume the sliced expression is generate()'s return value (extracted textually); new_with_scale stores max_level.max(1)
#[kani::proof]
fn c12_assigned_layer_is_always_loadable() {
    let (level, cur, max_level): (u8, u8, u8) = (kani::any(), kani::any(), kani::any());
    kani::assume(max_level >= 1);
    let l = slice_layer_clamp(level, cur, max_level);
    assert!(l < max_level, "an assigned layer is below max_layers, so the node's blob passes validate_loaded_node on reload");
    assert!(l <= level && (l as u16) <= cur as u16 + 1, "the draw is only ever lowered, and never skips more than one layer above the current top");
    kani::cover!(l == max_level - 1 && level > l, "clamped by the layer budget");
    kani::cover!(l as u16 == cur as u16 + 1 && level > l, "clamped to one above the current top");
    kani::cover!(l == level, "draw kept");
}
