// harness for rs/anda_db_hnsw/src/distance.rs (mounted by #[cfg(kani)] hook)
