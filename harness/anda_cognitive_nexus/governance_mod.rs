// @module governance::verif_kani
// Kani harnesses for rs/anda_cognitive_nexus/src/governance/mod.rs — property C19, rank lattices:
// classification::join is the max under rank, authority::meet the min; unknown labels resolve
// toward refusal on both.
use super::*;

fn class_label(i: u8, unk: &'static str) -> &'static str {
    match i % 7 {
        0 => "",
        1 => classification::PUBLIC,
        2 => classification::INTERNAL,
        3 => classification::PRIVATE,
        4 => classification::SENSITIVE,
        5 => classification::SECRET,
        _ => unk,
    }
}
fn authority_label(i: u8, unk: &'static str) -> &'static str {
    match i % 6 {
        0 => "",
        1 => authority::DESCRIPTIVE,
        2 => authority::ADVISORY,
        3 => authority::BEHAVIORAL,
        4 => authority::EXECUTABLE,
        _ => unk,
    }
}

/// a label that is none of the defined ones: N symbolic bytes, assumed different from every
/// defined label of that length (so every case / spelling variant is inside the bound)
fn unknown<const N: usize>(buf: &mut [u8; N], known: &[&str]) {
    let mut i = 0;
    while i < N {
        let b: u8 = kani::any();
        kani::assume(b >= 0x20 && b < 0x7f);
        buf[i] = b;
        i += 1;
    }
    let mut k = 0;
    while k < known.len() {
        if known[k].len() == N {
            let mut same = true;
            let mut j = 0;
            while j < N {
                if known[k].as_bytes()[j] != buf[j] {
                    same = false;
                }
                j += 1;
            }
            kani::assume(!same);
        }
        k += 1;
    }
}

const CLASSES: [&str; 5] = [classification::PUBLIC, classification::INTERNAL, classification::PRIVATE, classification::SENSITIVE, classification::SECRET];
const AUTHS: [&str; 4] = [authority::DESCRIPTIVE, authority::ADVISORY, authority::BEHAVIORAL, authority::EXECUTABLE];

// @check id=C19 tier=quick cap=600 role=classification_rank_ladder
// @fns governance::classification::rank
// @bound every defined label (concrete), "" and EVERY other printable string of length 1, 2, 6, 7 and 8 (symbolic bytes; covers all case/spelling variants of public, secret, private, internal)
#[kani::proof]
#[kani::unwind(10)]
fn c19_classification_rank_ladder_and_unknown_labels() {
    use classification::rank;
    assert!(rank(classification::PUBLIC) < rank(classification::INTERNAL)
        && rank(classification::INTERNAL) < rank(classification::PRIVATE)
        && rank(classification::PRIVATE) < rank(classification::SENSITIVE)
        && rank(classification::SENSITIVE) < rank(classification::SECRET), "documented ladder");
    assert!(rank("") == rank(classification::DEFAULT) && rank("") > rank(classification::PUBLIC), "an absent label is the default, never public");
    let (mut u1, mut u2, mut u6, mut u7, mut u8_) = ([0u8; 1], [0u8; 2], [0u8; 6], [0u8; 7], [0u8; 8]);
    unknown(&mut u1, &CLASSES);
    unknown(&mut u2, &CLASSES);
    unknown(&mut u6, &CLASSES);
    unknown(&mut u7, &CLASSES);
    unknown(&mut u8_, &CLASSES);
    let top = rank(classification::SECRET);
    assert!(rank(unsafe { std::str::from_utf8_unchecked(&u1) }) > top, "unknown 1-byte label ranks above secret");
    assert!(rank(unsafe { std::str::from_utf8_unchecked(&u2) }) > top, "unknown 2-byte label ranks above secret");
    assert!(rank(unsafe { std::str::from_utf8_unchecked(&u6) }) > top, "unknown 6-byte label ranks above secret");
    assert!(rank(unsafe { std::str::from_utf8_unchecked(&u7) }) > top, "unknown 7-byte label ranks above secret");
    assert!(rank(unsafe { std::str::from_utf8_unchecked(&u8_) }) > top, "unknown 8-byte label ranks above secret");
    kani::cover!(u6[0] == b'P' && u6[1] == b'u' && u6[2] == b'b' && u6[3] == b'l' && u6[4] == b'i' && u6[5] == b'c', "'Public' is inside the bound");
    kani::cover!(u6[0] == b's' && u6[5] == b't', "a near miss of 'secret'");
}

// @check id=C19 tier=quick cap=600 role=classification_join_is_max
// @fns governance::classification::rank, governance::classification::join
// @bound a, b each a symbolic choice among the five defined labels, "" and an unknown label; the lattice laws (commutative, associative, idempotent, monotone in rank) follow from rank(join(a,b)) = max(rank a, rank b)
#[kani::proof]
#[kani::unwind(12)]
fn c19_classification_join_is_max() {
    use classification::{join, rank};
    let a = class_label(kani::any(), "Public");
    let b = class_label(kani::any(), "zz");
    let (ra, rb) = (rank(a), rank(b));
    let j = join(a, b);
    let rj = rank(j);
    assert!(rj == if ra >= rb { ra } else { rb }, "rank(join(a,b)) == max(rank a, rank b)");
    assert!(std::ptr::eq(j, a) || std::ptr::eq(j, b), "join returns one of its arguments");
    kani::cover!(ra < rb, "a below b");
    kani::cover!(ra == u8::MAX && rb < 5, "unknown joined with known");
}

// @check id=C19 tier=quick cap=600 role=authority_rank_ladder
// @fns governance::authority::rank
// @bound every defined class (concrete), "" and every other printable string of length 1, 2, 8 and 10
#[kani::proof]
#[kani::unwind(12)]
fn c19_authority_rank_ladder_and_unknown_labels() {
    use authority::rank;
    assert!(rank(authority::DESCRIPTIVE) < rank(authority::ADVISORY)
        && rank(authority::ADVISORY) < rank(authority::BEHAVIORAL)
        && rank(authority::BEHAVIORAL) < rank(authority::EXECUTABLE), "documented ladder");
    assert!(rank("") == 0 && rank(authority::DEFAULT) == 0, "absent = default = lowest");
    let (mut u1, mut u2, mut u8_, mut u10) = ([0u8; 1], [0u8; 2], [0u8; 8], [0u8; 10]);
    unknown(&mut u1, &AUTHS);
    unknown(&mut u2, &AUTHS);
    unknown(&mut u8_, &AUTHS);
    unknown(&mut u10, &AUTHS);
    assert!(rank(unsafe { std::str::from_utf8_unchecked(&u1) }) == 0, "unknown class is the lowest rung (1 byte)");
    assert!(rank(unsafe { std::str::from_utf8_unchecked(&u2) }) == 0, "unknown class is the lowest rung (2 bytes)");
    assert!(rank(unsafe { std::str::from_utf8_unchecked(&u8_) }) == 0, "unknown class is the lowest rung (8 bytes)");
    assert!(rank(unsafe { std::str::from_utf8_unchecked(&u10) }) == 0, "unknown class is the lowest rung (10 bytes)");
    kani::cover!(u10[0] == b'E' && u10[9] == b'e', "'Executable'-like variant inside the bound");
}

// @check id=C19 tier=quick cap=600 role=authority_meet_is_min
// @fns governance::authority::rank, governance::authority::meet
// @bound a, b each a symbolic choice among the four defined classes, "" and an unknown label
#[kani::proof]
#[kani::unwind(14)]
fn c19_authority_meet_is_min() {
    use authority::{meet, rank};
    let a = authority_label(kani::any(), "Executable");
    let b = authority_label(kani::any(), "zz");
    let (ra, rb) = (rank(a), rank(b));
    let m = meet(a, b);
    assert!(rank(m) == if ra <= rb { ra } else { rb }, "rank(meet(a,b)) == min(rank a, rank b)");
    assert!(std::ptr::eq(m, a) || std::ptr::eq(m, b), "meet returns one of its arguments");
    kani::cover!(ra > rb, "a above b");
    kani::cover!(rank(m) == 3, "executable survives only with executable");
}
