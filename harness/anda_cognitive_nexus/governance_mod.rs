// harness for rs/anda_cognitive_nexus/src/governance/mod.rs (mounted by #[cfg(kani)] hook)
