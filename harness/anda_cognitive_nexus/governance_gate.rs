// @module governance::gate::verif_kani
// Kani harnesses for rs/anda_cognitive_nexus/src/governance/gate.rs — property C19, "access is denied
// unless ... allows it": the command gate decides WHICH permission each parsed command is checked
// against. If a command asked for less than its family demands (an UPDATE asking only for `read`, a
// BELIEF under OPTIONAL asking for no `project`, a second clause of a statement not asked for at all),
// default-deny would be bypassed before `authorize` is ever consulted. All oracles are lower bounds
// (the set asked for contains at least ...), so a stricter gate never raises an alarm.
use super::*;
use anda_kip::*;

fn null() -> Scalar {
    Scalar::Literal(KipValue::Null)
}
fn handle() -> ElementRef {
    ElementRef::Handle(String::from("a"))
}
fn belief() -> WhereClause {
    WhereClause::Belief { variable: String::from("b"), target: BeliefTarget::Proposition(String::from("p")) }
}
fn belief_slot() -> WhereClause {
    WhereClause::BeliefSlot { variable: String::from("s"), subject: Term::Variable(String::from("x")), predicate: PredAtom::Literal(String::from("p")) }
}
fn plain() -> WhereClause {
    WhereClause::Concept { variable: String::from("c"), matcher: ObjectMatcher::new() }
}
fn query(where_clauses: Vec<WhereClause>, as_of: Option<AsOf>) -> KqlQuery {
    KqlQuery { find_clause: FindClause { expressions: Vec::new() }, where_clauses, as_of, for_time: None, epistemic: None, order_by: None, limit: None, cursor: None }
}
fn has(v: &[Permission], p: Permission) -> bool {
    let mut i = 0;
    while i < v.len() {
        if v[i] == p {
            return true;
        }
        i += 1;
    }
    false
}
/// wraps `inner` in NOT / OPTIONAL / UNION by a concrete selector
fn wrap(sel: u8, inner: Vec<WhereClause>) -> WhereClause {
    match sel {
        0 => WhereClause::Not(inner),
        1 => WhereClause::Optional(inner),
        _ => WhereClause::Union(inner),
    }
}

// ---- KQL: read always, read_history iff AS OF, project iff a BELIEF clause occurs anywhere ----------
macro_rules! kql_shape {
    ($name:ident, $clauses:expr, $projects:expr) => {
        #[kani::proof]
        #[kani::unwind(5)]
        fn $name() {
            let historical: bool = kani::any();
            let as_of = if historical { Some(AsOf::Seq(null())) } else { None };
            let q = query($clauses, as_of);
            let needed = kql_permissions(&q);
            assert!(has(&needed, Permission::Read), "every query is checked against `read`");
            assert!(has(&needed, Permission::ReadHistory) == historical, "`read_history` is asked for exactly when the query reads AS OF a past point");
            assert!(has(&needed, Permission::Project) == $projects, "`project` is asked for iff a BELIEF / BELIEF SLOT clause occurs, at top level or inside NOT / OPTIONAL / UNION");
            kani::cover!(historical, "historical read");
            kani::cover!(!historical, "current read");
            std::mem::forget((needed, q));
        }
    };
}
// @check id=C19 tier=quick cap=300 role=gate_kql harness=c19_gate_kql_plain,c19_gate_kql_belief_top,c19_gate_kql_belief_slot_second
// @fns governance::gate::kql_permissions, governance::gate::projects_belief
// @bound concrete top-level WHERE shapes (no BELIEF; BELIEF first; BELIEF SLOT second) x symbolic presence of AS OF
kql_shape!(c19_gate_kql_plain, vec![plain()], false);
kql_shape!(c19_gate_kql_belief_top, vec![belief()], true);
kql_shape!(c19_gate_kql_belief_slot_second, vec![plain(), belief_slot()], true);

// wrappers: projects_belief itself on a stack-rooted NOT / OPTIONAL / UNION node (through kql_permissions
// the recursion over heap-held wrapper nodes did not finish in 300 s; kql_permissions' own use of
// projects_belief per top-level clause is decided by the shapes above)
macro_rules! wrapper_shape {
    ($name:ident, $node:expr, $projects:expr) => {
        #[kani::proof]
        #[kani::unwind(3)]
        fn $name() {
            let node = $node;
            let r = projects_belief(&node);
            assert!(r == $projects, "a BELIEF / BELIEF SLOT clause is seen through NOT, OPTIONAL and UNION alike");
            std::mem::forget(node);
        }
    };
}
// @check id=C19 tier=quick cap=300 role=gate_kql_wrappers harness=c19_gate_belief_in_not,c19_gate_belief_in_optional,c19_gate_belief_in_union,c19_gate_belief_slot_in_optional_after_plain,c19_gate_belief_slot_in_not_after_plain,c19_gate_plain_in_optional,c19_gate_empty_union
// @fns governance::gate::projects_belief
// @bound concrete one-level wrapper nodes: NOT / OPTIONAL / UNION holding a BELIEF; OPTIONAL and NOT holding a plain clause then a BELIEF SLOT; OPTIONAL holding only a plain clause; empty UNION (two wrapper levels did not finish at the unwind bound they need)
wrapper_shape!(c19_gate_belief_in_not, WhereClause::Not(vec![belief()]), true);
wrapper_shape!(c19_gate_belief_in_optional, WhereClause::Optional(vec![belief()]), true);
wrapper_shape!(c19_gate_belief_in_union, WhereClause::Union(vec![belief()]), true);
wrapper_shape!(c19_gate_belief_slot_in_optional_after_plain, WhereClause::Optional(vec![plain(), belief_slot()]), true);
wrapper_shape!(c19_gate_belief_slot_in_not_after_plain, WhereClause::Not(vec![plain(), belief_slot()]), true);
wrapper_shape!(c19_gate_plain_in_optional, WhereClause::Optional(vec![plain()]), false);
wrapper_shape!(c19_gate_empty_union, WhereClause::Union(Vec::new()), false);

// ---- KML: what one clause asks for -------------------------------------------------------------
fn concept_create() -> ConceptCreate {
    ConceptCreate { handle: String::from("c"), r#type: None, client_key: None, name: None, set_fields: None, set_attributes: None, set_facets: Vec::new(), set_structural: None }
}
fn record_create() -> RecordCreate {
    RecordCreate { handle: String::from("r"), client_key: None, set_fields: None, set_facets: Vec::new(), set_structural: None }
}
fn removal() -> RemovalStatement {
    RemovalStatement { target: handle(), where_clauses: None, limit: None, expect_state: None }
}
fn clause(k: u8) -> MutationClause {
    match k {
        0 => MutationClause::CreateConcept(concept_create()),
        1 => MutationClause::UpsertConcept(ConceptUpsert {
            handle: String::from("c"),
            r#match: None,
            expect_version: None,
            set_fields: None,
            set_attributes: None,
            set_facets: Vec::new(),
            unset_attributes: None,
            unset_facets: Vec::new(),
            set_structural: None,
            unset_structural: None,
        }),
        2 => MutationClause::EnsureProposition(EnsureProposition {
            handle: None,
            subject: Term::Variable(String::from("s")),
            predicate: PredAtom::Literal(String::from("p")),
            object: Term::Variable(String::from("o")),
            expect_version: None,
        }),
        3 => MutationClause::CreateEvidence(record_create()),
        4 => MutationClause::CreateAssertion(record_create()),
        5 => MutationClause::CreateActivity(record_create()),
        6 => MutationClause::Update(UpdateStatement { target: handle(), expect_version: None, actions: Vec::new(), where_clauses: None, limit: None }),
        7 => MutationClause::RetractAssertion(RetractAssertion { target: handle(), where_clauses: None, limit: None, expect_state: None }),
        8 => MutationClause::SupersedeAssertion(SupersedeAssertion { target: handle(), by: handle(), expect_state: None }),
        9 => MutationClause::CorrectEvidence(CorrectEvidence { target: handle(), by: handle(), expect_state: None }),
        10 => MutationClause::TransitionActivity(TransitionActivity { target: handle(), to: null(), set_fields: None, set_structural: None, expect_state: None }),
        11 => MutationClause::SetRetention(SetRetention { target: handle(), values: Vec::new(), where_clauses: None, limit: None, expect_version: None }),
        12 => MutationClause::Archive(removal()),
        13 => MutationClause::Tombstone(removal()),
        14 => MutationClause::Purge(PurgeStatement { target: handle(), where_clauses: None, limit: None, reference_policy: None, confirm: String::from("PURGE") }),
        _ => MutationClause::MergeConcept(MergeConcept { source: handle(), into: handle(), where_clauses: None, expect_version: None }),
    }
}
/// the permission a clause kind must at least be checked against (gate.rs module docs; KIP spec
/// sections quoted there): the specific act, never a Discovery-family permission
fn floor(k: u8) -> Permission {
    match k {
        0 | 2 | 3 | 5 => Permission::Create,
        1 => Permission::Create,
        4 => Permission::Assert,
        6 | 10 => Permission::Update,
        7 => Permission::RetractOwn,
        8 => Permission::SupersedeOwn,
        9 => Permission::Maintain,
        11 => Permission::ManageRetention,
        12 => Permission::Archive,
        13 => Permission::Tombstone,
        14 => Permission::Purge,
        _ => Permission::MergeIdentity,
    }
}
macro_rules! clause_row {
    ($name:ident, $k:expr) => {
        #[kani::proof]
        #[kani::unwind(4)]
        fn $name() {
            let c = clause($k);
            let needed = clause_permissions(&c);
            assert!(needed.len() >= 1, "no mutation clause passes the gate without asking for a permission");
            assert!(has(&needed, floor($k)), "the clause is checked against the permission of its own act");
            let mut i = 0;
            while i < needed.len() {
                assert!(needed[i].family() != super::super::permission::Family::Discovery, "a read-side permission never stands in for a write");
                i += 1;
            }
            if $k == 1 {
                assert!(has(&needed, Permission::Update), "an upsert may change an existing element, so it also asks for `update`");
            }
            if $k == 15 {
                assert!(has(&needed, Permission::Maintain), "merging identities is also a custodial act");
            }
            std::mem::forget((needed, c));
        }
    };
}
// @check id=C19 tier=quick cap=300 role=gate_kml_clause harness=c19_gate_clause_00,c19_gate_clause_01,c19_gate_clause_02,c19_gate_clause_03,c19_gate_clause_04,c19_gate_clause_05,c19_gate_clause_06,c19_gate_clause_07,c19_gate_clause_08,c19_gate_clause_09,c19_gate_clause_10,c19_gate_clause_11,c19_gate_clause_12,c19_gate_clause_13,c19_gate_clause_14,c19_gate_clause_15
// @fns governance::gate::clause_permissions, governance::permission::Permission::family
// @bound each of the 16 MutationClause variants with a minimal payload (the gate reads only the variant): the permission of the act is asked for, at least one permission is asked for, none of them is Discovery-family
clause_row!(c19_gate_clause_00, 0);
clause_row!(c19_gate_clause_01, 1);
clause_row!(c19_gate_clause_02, 2);
clause_row!(c19_gate_clause_03, 3);
clause_row!(c19_gate_clause_04, 4);
clause_row!(c19_gate_clause_05, 5);
clause_row!(c19_gate_clause_06, 6);
clause_row!(c19_gate_clause_07, 7);
clause_row!(c19_gate_clause_08, 8);
clause_row!(c19_gate_clause_09, 9);
clause_row!(c19_gate_clause_10, 10);
clause_row!(c19_gate_clause_11, 11);
clause_row!(c19_gate_clause_12, 12);
clause_row!(c19_gate_clause_13, 13);
clause_row!(c19_gate_clause_14, 14);
clause_row!(c19_gate_clause_15, 15);

// ---- KML: a statement asks for the union over ALL its clauses ---------------------------------
macro_rules! statement_union {
    ($name:ident, $a:expr, $b:expr) => {
        #[kani::proof]
        #[kani::unwind(4)]
        fn $name() {
            let st = KmlStatement { explicit_transaction: true, clauses: vec![clause($a), clause($b)] };
            let needed = kml_permissions(&st);
            assert!(has(&needed, floor($a)) && has(&needed, floor($b)), "every clause of a statement is gated, wherever it stands");
            std::mem::forget((needed, st));
        }
    };
}
// @check id=C19 tier=quick cap=300 role=gate_kml_statement harness=c19_gate_statement_create_then_purge,c19_gate_statement_archive_then_merge,c19_gate_statement_tombstone_first
// @fns governance::gate::kml_permissions, governance::gate::clause_permissions
// @bound three concrete two-clause statements (a destructive clause last, after a custodial one, first)
statement_union!(c19_gate_statement_create_then_purge, 0, 14);
statement_union!(c19_gate_statement_archive_then_merge, 12, 15);
statement_union!(c19_gate_statement_tombstone_first, 13, 4);

// ---- META: disclosure families ------------------------------------------------------------------
fn meta(k: u8) -> MetaCommand {
    match k {
        0 => MetaCommand::ExportCapsule(ExportCapsuleCommand { target: handle(), where_clauses: Vec::new(), options: None, as_of: None }),
        1 => MetaCommand::History(HistoryCommand::Space { from_seq: None, to_seq: None, limit: None, cursor: None }),
        2 => MetaCommand::History(HistoryCommand::Element { value: null(), from_seq: None, to_seq: None, limit: None, cursor: None }),
        3 => MetaCommand::Changes(ChangesCommand::Since { cursor: null(), limit: None }),
        4 => MetaCommand::Changes(ChangesCommand::AfterSeq { seq: null(), limit: None }),
        5 => MetaCommand::Snapshot { as_of: None },
        6 => MetaCommand::Search(SearchCommand {
            target: SearchTarget::Cognition,
            term: null(),
            with_type: None,
            with_predicate: None,
            mode: None,
            threshold: None,
            as_of_seq: None,
            limit: None,
            cursor: None,
        }),
        7 => MetaCommand::List(ListCommand { target: ListTarget::Types, status: None, limit: None, cursor: None }),
        8 => MetaCommand::Preview(PreviewCommand::Kml(null())),
        9 => MetaCommand::Describe(DescribeTarget::Transaction(null())),
        10 => MetaCommand::Describe(DescribeTarget::TransactionByIdempotencyKey(null())),
        11 => MetaCommand::Describe(DescribeTarget::Snapshot { as_of: None }),
        12 => MetaCommand::Describe(DescribeTarget::SchemaEnvironment { as_of: Some(AsOf::Seq(null())) }),
        13 => MetaCommand::Describe(DescribeTarget::Trust { value: None }),
        14 => MetaCommand::Describe(DescribeTarget::Type(null())),
        15 => MetaCommand::Describe(DescribeTarget::Space { value: None }),
        _ => MetaCommand::Describe(DescribeTarget::Capsule(null())),
    }
}
fn meta_floor(k: u8) -> &'static [Permission] {
    match k {
        0 => &[Permission::Export],
        1 | 2 | 3 | 4 => &[Permission::Read, Permission::ReadHistory],
        5 | 9 | 10 | 11 => &[Permission::ReadHistory],
        6 => &[Permission::Search],
        7 | 14 | 15 => &[Permission::Discover],
        8 | 13 => &[Permission::Read],
        12 => &[Permission::Discover, Permission::ReadHistory],
        _ => &[Permission::Discover],
    }
}
macro_rules! meta_row {
    ($name:ident, $k:expr) => {
        #[kani::proof]
        #[kani::unwind(4)]
        fn $name() {
            let m = meta($k);
            let needed = meta_permissions(&m);
            let want = meta_floor($k);
            let mut i = 0;
            while i < want.len() {
                assert!(has(&needed, want[i]), "a META command that discloses Space content or history is checked against the permission of that disclosure");
                i += 1;
            }
            std::mem::forget((needed, m));
        }
    };
}
// @check id=C19 tier=quick cap=300 role=gate_meta harness=c19_gate_meta_00,c19_gate_meta_01,c19_gate_meta_02,c19_gate_meta_03,c19_gate_meta_04,c19_gate_meta_05,c19_gate_meta_06,c19_gate_meta_07,c19_gate_meta_08,c19_gate_meta_09,c19_gate_meta_10,c19_gate_meta_11,c19_gate_meta_12,c19_gate_meta_13,c19_gate_meta_14,c19_gate_meta_15,c19_gate_meta_16
// @fns governance::gate::meta_permissions, governance::gate::describe_permissions
// @bound 17 META commands that disclose Space content, history or existence (EXPORT CAPSULE -> export; HISTORY / CHANGES -> read + read_history; SNAPSHOT, DESCRIBE TRANSACTION / SNAPSHOT -> read_history; SEARCH -> search; LIST, DESCRIBE TYPE / SPACE / CAPSULE -> discover; PREVIEW, DESCRIBE TRUST -> read; DESCRIBE SCHEMA ENVIRONMENT AS OF -> discover + read_history); lower bounds only. Engine-describing commands (PROTOCOL, CAPABILITIES, ...) are documented to need nothing and are not constrained here.
meta_row!(c19_gate_meta_00, 0);
meta_row!(c19_gate_meta_01, 1);
meta_row!(c19_gate_meta_02, 2);
meta_row!(c19_gate_meta_03, 3);
meta_row!(c19_gate_meta_04, 4);
meta_row!(c19_gate_meta_05, 5);
meta_row!(c19_gate_meta_06, 6);
meta_row!(c19_gate_meta_07, 7);
meta_row!(c19_gate_meta_08, 8);
meta_row!(c19_gate_meta_09, 9);
meta_row!(c19_gate_meta_10, 10);
meta_row!(c19_gate_meta_11, 11);
meta_row!(c19_gate_meta_12, 12);
meta_row!(c19_gate_meta_13, 13);
meta_row!(c19_gate_meta_14, 14);
meta_row!(c19_gate_meta_15, 15);
meta_row!(c19_gate_meta_16, 16);
