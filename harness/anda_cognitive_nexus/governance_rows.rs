// harness for rs/anda_cognitive_nexus/src/governance/rows.rs (mounted by #[cfg(kani)] hook)
