// @module governance::rows::verif_kani
// Kani harnesses for rs/anda_cognitive_nexus/src/governance/rows.rs — property C19, attenuation
// helpers ("a delegation never confers more than its delegator holds"): narrows, at_least,
// at_most, within_ceiling, AuthorityConstraints::contains. Oracles are written over the
// *admitted values* (what the child admits the parent must admit), not over list shapes.
use super::*;
include!("/verif/harness/common.rs");

/// one-byte label with a symbolic byte in a..c (equal and unequal labels both occur)
fn lab() -> String {
    let b: u8 = kani::any();
    kani::assume(b >= b'a' && b <= b'c');
    unsafe { String::from_utf8_unchecked(vec![b]) }
}
/// list of 0..2 labels
fn list() -> Vec<String> {
    let n: u8 = kani::any();
    kani::assume(n <= 2);
    match n {
        0 => vec![],
        1 => vec![lab()],
        _ => vec![lab(), lab()],
    }
}
/// "empty means everything" reading of a bound list, written independently of the code
fn admits(bound: &[String], value: &str) -> bool {
    if bound.is_empty() {
        return true;
    }
    if value.is_empty() {
        return false;
    }
    let mut i = 0;
    let mut hit = false;
    while i < bound.len() {
        if bound[i].as_bytes()[0] == value.as_bytes()[0] {
            hit = true;
        }
        i += 1;
    }
    hit
}

// @check id=C19 tier=quick cap=600 role=narrows_attenuates
// @fns governance::rows::narrows
// @bound parent and child lists of 0..2 one-byte labels (symbolic bytes a..c); value "" or a one-byte label
#[kani::proof]
#[kani::unwind(4)]
fn c19_narrows_implies_child_admits_subset() {
    let parent = list();
    let child = list();
    let value = if kani::any() { String::new() } else { lab() };
    if narrows(&parent, &child) && admits(&child, &value) {
        assert!(admits(&parent, &value), "whatever the narrowed child admits, the parent admits");
    }
    // an unrestricted (empty) child never narrows a restricted parent
    if !parent.is_empty() && child.is_empty() {
        assert!(!narrows(&parent, &child), "'every value' is not a narrowing of a bounded list");
    }
    // completeness on the subset reading, so the check cannot be satisfied by refusing everything
    if parent.is_empty() {
        assert!(narrows(&parent, &child), "anything narrows an unrestricted parent");
    }
    kani::cover!(narrows(&parent, &child) && parent.len() == 2 && child.len() == 1, "strict subset accepted");
    kani::cover!(!narrows(&parent, &child) && child.len() == 2 && parent.len() == 2, "non-subset rejected");
    std::mem::forget((parent, child, value));
}

/// two-byte symbolic "instant" — the kernels compare instants as strings; RFC 3339 UTC stamps of
/// fixed width order lexicographically, which is the only thing the code relies on.
fn instant() -> String {
    let a: u8 = kani::any();
    let b: u8 = kani::any();
    kani::assume(a >= b'0' && a <= b'9' && b >= b'0' && b <= b'9');
    unsafe { String::from_utf8_unchecked(vec![a, b]) }
}
fn opt_instant() -> String {
    if kani::any() { String::new() } else { instant() }
}

// @check id=C19 tier=quick cap=600 role=validity_window_attenuates
// @fns governance::rows::at_least, governance::rows::at_most
// @bound parent/child bounds: "" or any two-digit string; now: any two-digit string
// @assume instants are fixed-width RFC 3339 UTC strings, so lexicographic order is chronological order
#[kani::proof]
#[kani::unwind(4)]
fn c19_validity_window_never_widens() {
    let (pf, cf, pu, cu) = (opt_instant(), opt_instant(), opt_instant(), opt_instant());
    let now = instant();
    let in_window = |from: &str, until: &str| (from.is_empty() || now.as_str() >= from) && (until.is_empty() || now.as_str() < until);
    if at_least(&pf, &cf) && at_most(&pu, &cu) && in_window(&cf, &cu) {
        assert!(in_window(&pf, &pu), "a child window accepted by at_least/at_most lies inside the parent window");
    }
    if !pu.is_empty() && cu.is_empty() {
        assert!(!at_most(&pu, &cu), "a child that never expires cannot hang off a parent that does");
    }
    if !pf.is_empty() && cf.is_empty() {
        assert!(!at_least(&pf, &cf), "a child with no start cannot hang off a parent that has one");
    }
    kani::cover!(at_most(&pu, &cu) && !pu.is_empty() && cu.as_str() < pu.as_str(), "strictly shorter child accepted");
    kani::cover!(!at_most(&pu, &cu) && !cu.is_empty(), "child outliving its parent rejected");
    std::mem::forget((pf, cf, pu, cu, now));
}

const CLASS_LABELS: [&str; 7] = ["", "public", "internal", "private", "sensitive", "secret", "zz"];
const AUTH_LABELS: [&str; 6] = ["", "descriptive", "advisory", "behavioral", "executable", "zz"];

// fields / result cap / export: symbolic lists and integers, ceilings left unstated
// @check id=C19 tier=quick cap=900 role=constraints_attenuate_fields_results_export
// @fns governance::rows::AuthorityConstraints::contains, governance::rows::narrows
// @bound parent/child: field lists of 0..2 one-byte labels (symbolic), max_results None or any u64, export symbolic; ceilings "" on both sides; probe field: any label
#[kani::proof]
#[kani::unwind(4)]
fn c19_constraints_contains_attenuates_fields_results_export() {
    let parent = AuthorityConstraints {
        fields: list(),
        max_results: if kani::any() { Some(kani::any()) } else { None },
        max_influence_authority: String::new(),
        max_classification: String::new(),
        export: kani::any(),
    };
    let child = AuthorityConstraints {
        fields: list(),
        max_results: if kani::any() { Some(kani::any()) } else { None },
        max_influence_authority: String::new(),
        max_classification: String::new(),
        export: kani::any(),
    };
    let field = lab();
    let contained = parent.contains(&child);
    if contained {
        if admits(&child.fields, &field) {
            assert!(admits(&parent.fields, &field), "child returns no field the parent withholds");
        }
        if let Some(p) = parent.max_results {
            assert!(matches!(child.max_results, Some(c) if c <= p), "child result cap is not larger (and not absent)");
        }
        assert!(parent.export || !child.export, "export is never gained");
    }
    // not vacuous by over-refusal: an identical child is always contained
    kani::cover!(contained && parent.max_results.is_some() && !parent.fields.is_empty(), "contained under a bounded parent");
    kani::cover!(!contained && parent.export && parent.fields.is_empty(), "refused on the result cap alone");
    kani::cover!(!contained && !parent.export && child.export, "refused on export");
    std::mem::forget((parent, child, field));
}

fn sel_class(i: u8) -> &'static str {
    match i % 7 {
        0 => CLASS_LABELS[0],
        1 => CLASS_LABELS[1],
        2 => CLASS_LABELS[2],
        3 => CLASS_LABELS[3],
        4 => CLASS_LABELS[4],
        5 => CLASS_LABELS[5],
        _ => CLASS_LABELS[6],
    }
}
fn sel_auth(i: u8) -> &'static str {
    match i % 6 {
        0 => AUTH_LABELS[0],
        1 => AUTH_LABELS[1],
        2 => AUTH_LABELS[2],
        3 => AUTH_LABELS[3],
        4 => AUTH_LABELS[4],
        _ => AUTH_LABELS[5],
    }
}

// ceilings: the helper every ceiling comparison goes through, over the label classes (every
// defined label, "", one unknown representative; the *_rank_ladder_* harnesses decide that all
// unknown labels rank alike).
// @check id=C19 tier=quick cap=900 role=within_ceiling_attenuates
// @fns governance::rows::within_ceiling, governance::classification::rank, governance::authority::rank
// @bound parent ceiling, child ceiling, resource classification: each a symbolic choice among every defined label, "" and an unknown label (7x7x7 and 6x6)
#[kani::proof]
#[kani::unwind(14)]
fn c19_within_ceiling_attenuates() {
    use crate::governance::{authority, classification};
    let (p, c, r) = (sel_class(kani::any()), sel_class(kani::any()), sel_class(kani::any()));
    let w = within_ceiling(p, c, classification::rank);
    let (rp, rc, rr) = (classification::rank(p), classification::rank(c), classification::rank(r));
    let reaches_child = c.is_empty() || rr <= rc;
    let reaches_parent = p.is_empty() || rr <= rp;
    if w && reaches_child {
        assert!(reaches_parent, "a resource under the child's classification ceiling is under the parent's");
    }
    if !p.is_empty() && c.is_empty() {
        assert!(!w, "an unbounded child ceiling is never within a stated parent ceiling");
    }
    if p.is_empty() || (!c.is_empty() && rc <= rp) {
        assert!(w, "a child ceiling at or below the parent's is accepted");
    }
    let (pa, ca) = (sel_auth(kani::any()), sel_auth(kani::any()));
    let wa = within_ceiling(pa, ca, authority::rank);
    if wa && !pa.is_empty() {
        assert!(!ca.is_empty() && authority::rank(ca) <= authority::rank(pa), "influence ceiling not raised or dropped");
    }
    kani::cover!(w && !p.is_empty() && rc < rp, "strictly lower child ceiling accepted");
    kani::cover!(!w && !c.is_empty(), "higher child ceiling refused");
    kani::cover!(wa && !pa.is_empty(), "influence ceiling contained");
}

/// "" or one of two equal-length labels, as a String with symbolic *content*
fn two_label(a: &'static [u8], b: &'static [u8]) -> String {
    if kani::any() {
        return String::new();
    }
    let pick: bool = kani::any();
    let mut v = Vec::with_capacity(a.len());
    let mut i = 0;
    while i < a.len() {
        v.push(if pick { a[i] } else { b[i] });
        i += 1;
    }
    unsafe { String::from_utf8_unchecked(v) }
}

// contains() wires the ceilings through within_ceiling in the right direction with the right rank
// @check id=C19 tier=quick cap=900 role=constraints_contains_ceilings_wired
// @fns governance::rows::AuthorityConstraints::contains, governance::rows::within_ceiling
// @bound parent/child max_classification in {"", public, secret}, max_influence_authority in {"", behavioral, executable} (symbolic choice, equal-length labels); other constraints unstated
#[kani::proof]
#[kani::unwind(14)]
fn c19_constraints_contains_wires_ceilings() {
    use crate::governance::{authority, classification};
    let parent = AuthorityConstraints {
        max_classification: two_label(b"public", b"secret"),
        max_influence_authority: two_label(b"behavioral", b"executable"),
        ..Default::default()
    };
    let child = AuthorityConstraints {
        max_classification: two_label(b"public", b"secret"),
        max_influence_authority: two_label(b"behavioral", b"executable"),
        ..Default::default()
    };
    let contained = parent.contains(&child);
    let ok = |p: &str, c: &str, rank: fn(&str) -> u8| p.is_empty() || (!c.is_empty() && rank(c) <= rank(p));
    let expect = ok(&parent.max_classification, &child.max_classification, classification::rank)
        && ok(&parent.max_influence_authority, &child.max_influence_authority, authority::rank);
    assert!(contained == expect, "contains == both ceilings stay under the parent's (other constraints unstated)");
    kani::cover!(contained && !parent.max_classification.is_empty() && !parent.max_influence_authority.is_empty(), "contained under two stated ceilings");
    kani::cover!(!contained && child.max_classification.len() == 6 && parent.max_classification.len() == 6, "secret child under public parent refused");
    std::mem::forget((parent, child));
}

fn known_differs<const N: usize>(buf: &[u8; N], known: &[&str]) -> bool {
    let mut k = 0;
    let mut ok = true;
    while k < known.len() {
        if known[k].len() == N {
            let mut same = true;
            let mut j = 0;
            while j < N {
                if known[k].as_bytes()[j] != buf[j] {
                    same = false;
                }
                j += 1;
            }
            if same {
                ok = false;
            }
        }
        k += 1;
    }
    ok
}

// @check id=C19 tier=quick cap=600 role=strength_and_assurance_ladders
// @fns governance::rows::auth_strength::rank, governance::rows::purpose_assurance::rank
// @bound every defined name (concrete) and every other string of length 0, 1, 4, 6, 8 (symbolic bytes)
#[kani::proof]
#[kani::unwind(15)]
fn c19_unknown_strength_or_assurance_satisfies_no_bar() {
    assert!(auth_strength::rank(auth_strength::NONE) < auth_strength::rank(auth_strength::STANDARD)
        && auth_strength::rank(auth_strength::STANDARD) < auth_strength::rank(auth_strength::STRONG), "auth strength ladder");
    assert!(purpose_assurance::rank(purpose_assurance::DECLARED) < purpose_assurance::rank(purpose_assurance::SESSION_BOUND)
        && purpose_assurance::rank(purpose_assurance::SESSION_BOUND) < purpose_assurance::rank(purpose_assurance::SYSTEM_BOUND)
        && purpose_assurance::rank(purpose_assurance::SYSTEM_BOUND) < purpose_assurance::rank(purpose_assurance::APPROVED), "purpose assurance ladder");
    let s_known = [auth_strength::STANDARD, auth_strength::STRONG];
    let p_known = [purpose_assurance::SESSION_BOUND, purpose_assurance::SYSTEM_BOUND, purpose_assurance::APPROVED];
    let u1: [u8; 1] = kani::any();
    let u4: [u8; 4] = kani::any();
    let u6: [u8; 6] = kani::any();
    let u8_: [u8; 8] = kani::any();
    kani::assume(u1[0] < 0x80 && u4[0] < 0x80 && u4[1] < 0x80 && u4[2] < 0x80 && u4[3] < 0x80);
    kani::assume(u6[0] < 0x80 && u6[1] < 0x80 && u6[2] < 0x80 && u6[3] < 0x80 && u6[4] < 0x80 && u6[5] < 0x80);
    kani::assume(u8_[0] < 0x80 && u8_[1] < 0x80 && u8_[2] < 0x80 && u8_[3] < 0x80 && u8_[4] < 0x80 && u8_[5] < 0x80 && u8_[6] < 0x80 && u8_[7] < 0x80);
    let (s1, s4, s6, s8) = unsafe { (std::str::from_utf8_unchecked(&u1), std::str::from_utf8_unchecked(&u4), std::str::from_utf8_unchecked(&u6), std::str::from_utf8_unchecked(&u8_)) };
    assert!(auth_strength::rank("") == 0 && purpose_assurance::rank("") == 0, "absent = lowest");
    assert!(auth_strength::rank(s1) == 0 && purpose_assurance::rank(s1) == 0, "1-byte names are unknown");
    assert!(auth_strength::rank(s4) == 0 && purpose_assurance::rank(s4) == 0, "4-byte names are unknown or 'none'");
    if known_differs(&u6, &s_known) {
        assert!(auth_strength::rank(s6) == 0, "a 6-byte name other than 'strong' satisfies no bar");
    }
    if known_differs(&u8_, &s_known) {
        assert!(auth_strength::rank(s8) == 0, "an 8-byte name other than 'standard' satisfies no bar");
    }
    if known_differs(&u8_, &p_known) {
        assert!(purpose_assurance::rank(s8) == 0, "an 8-byte name other than 'approved' satisfies no bar");
    }
    kani::cover!(u6[0] == b'S' && u6[1] == b't' && u6[5] == b'g', "'Strong'-like variant inside the bound");
    kani::cover!(!known_differs(&u8_, &p_known), "'approved' itself inside the bound");
}
