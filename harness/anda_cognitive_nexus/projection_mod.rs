// harness for rs/anda_cognitive_nexus/src/projection/mod.rs (mounted by #[cfg(kani)] hook)
