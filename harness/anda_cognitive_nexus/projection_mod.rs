// @module projection::verif_kani
// Kani harnesses for rs/anda_cognitive_nexus/src/projection/mod.rs — property C20:
// classify (belief-state thresholds) and aggregate (corroboration groups + score).
//
// `aggregate` builds its grouping keys with format!("actor:{}") / format!("evidence:{}").
// Un-stubbed `format!` is out of reach for CBMC, so `alloc::fmt::format` is replaced by a
// *positional model*: the i-th call returns the one-byte string KEYS[i]; every harness fills KEYS so
// that call i gets a byte that identifies the same actor / evidence id the real format! would
// render (actors use bytes < 64, evidence ids bytes >= 64, so the two families never collide —
// exactly like the "actor:" / "evidence:" prefixes). Candidates carry the *real* one-letter actor /
// evidence strings, so the same body replays natively with the real format!. The number of
// format! calls is asserted (when the model was used), so a tree that formats differently is
// reported inconclusive instead of silently mis-modelled.
use super::*;

static mut KEYS: [u8; 12] = [0; 12];
static mut CALLS: usize = 0;

fn format_model(_args: std::fmt::Arguments<'_>) -> String {
    unsafe {
        let i = CALLS;
        CALLS += 1;
        let b = if i < 12 { KEYS[i] } else { 0 };
        String::from_utf8_unchecked(vec![b])
    }
}
fn model_calls_ok(expected: usize) -> bool {
    // natively (playback) the model is not applied and CALLS stays 0
    unsafe { CALLS == 0 || CALLS == expected }
}
fn set_keys(k: &[u8]) {
    unsafe {
        let mut i = 0;
        while i < 12 {
            KEYS[i] = if i < k.len() { k[i] } else { 0 };
            i += 1;
        }
        CALLS = 0;
    }
}
fn one(b: u8) -> String {
    unsafe { String::from_utf8_unchecked(vec![b]) }
}
/// candidate with actor byte `a` (b'a' + a) and optional evidence byte `e`
fn cand(seq: u64, a: u8, e: Option<u8>, stance: &str, conf: f64, opposes: bool) -> Candidate {
    Candidate {
        id: ElementId::new(anda_kip::ElementKind::Assertion, seq),
        actor: one(b'a' + a),
        evidence: match e {
            Some(e) => vec![one(b'x' + e)],
            None => Vec::new(),
        },
        stance: stance.to_string(),
        confidence: conf,
        opposes_target: opposes,
    }
}
fn akey(a: u8) -> u8 {
    a
}
fn ekey(e: u8) -> u8 {
    64 + e
}
fn unit(c: f64) -> bool {
    c >= 0.0 && c <= 1.0
}

// K1 classify ----------------------------------------------------------------------------------
// @check id=C20 tier=quick cap=600 role=classify_laws
// @fns projection::classify
// @bound support, opposition in [0,1]; policy.accept, policy.material any f64 with 0 <= material <= accept <= 1 (the domain Policy::from_settings admits); group counts any usize; uncertain list empty or not
#[kani::proof]
#[kani::unwind(4)]
fn c20_classify_silence_is_insufficient_and_rejection_needs_opposition() {
    let support: f64 = kani::any();
    let opposition: f64 = kani::any();
    kani::assume(unit(support) && unit(opposition));
    let mut policy = Policy::baseline();
    policy.accept = kani::any();
    policy.material = kani::any();
    // exactly the domain Policy::from_settings admits: both in [0,1] (zero included), material <= accept
    kani::assume(policy.material >= 0.0 && policy.material <= policy.accept && policy.accept <= 1.0);
    let has_uncertain: bool = kani::any();
    let ledger = Ledger {
        support_groups: kani::any(),
        opposition_groups: kani::any(),
        uncertain: if has_uncertain { vec![String::new()] } else { Vec::new() },
        ..Default::default()
    };
    let engaged = ledger.support_groups > 0 || ledger.opposition_groups > 0 || has_uncertain;
    let st = classify(support, opposition, &ledger, &policy);
    if !engaged {
        assert!(st == BeliefStatus::Insufficient, "nobody has spoken: insufficient, never rejected");
    } else {
        assert!(st != BeliefStatus::Insufficient, "once anybody engaged the state is not the open-world unknown");
    }
    if st == BeliefStatus::Rejected {
        assert!(opposition >= policy.accept && opposition > 0.0 && opposition > support, "rejection requires positive opposition at the accept bar, above the support");
        assert!(support < policy.material, "rejection only when support is immaterial");
    }
    if opposition == 0.0 {
        assert!(st != BeliefStatus::Rejected, "no opposition, no rejection - however little support there is");
    }
    if st == BeliefStatus::Accepted {
        assert!(support >= policy.accept && opposition < policy.material, "acceptance needs sufficient support and immaterial opposition");
    }
    if st == BeliefStatus::Contested {
        assert!(support >= policy.material && opposition >= policy.material, "contested needs both sides material");
    }
    // the thresholds are inclusive: exactly at the bar counts
    if engaged && support == policy.accept && opposition < policy.material {
        assert!(st == BeliefStatus::Accepted, "a score exactly at the accept bar is accepted");
    }
    // symmetry: swapping the sides swaps Accepted and Rejected
    let sw = classify(opposition, support, &ledger, &policy);
    assert!((st == BeliefStatus::Accepted) == (sw == BeliefStatus::Rejected), "accepted and rejected mirror each other");
    kani::cover!(st == BeliefStatus::Rejected, "rejected reachable");
    kani::cover!(st == BeliefStatus::Accepted && support == policy.accept, "accepted exactly at the bar");
    kani::cover!(st == BeliefStatus::Uncertain && support == 0.0 && opposition == 0.0, "engaged but nothing material: uncertain");
    kani::cover!(st == BeliefStatus::Contested, "contested reachable");
    std::mem::forget((ledger, policy));
}

// K2 aggregate ---------------------------------------------------------------------------------
// Group structure and float arithmetic are decided separately: with symbolic identities AND symbolic
// f64 confidences in one query the solver did not finish (1200 s); structure harnesses use fixed
// confidences, score harnesses use a concrete structure with fully symbolic f64 confidences.

// (symbolic group structure: 121 s before the fix commit, > 600 s with the sorted fold; thorough tier)
// @check id=C20 tier=thorough cap=600 role=groups_are_components_two
// @fns projection::aggregate
// @bound two supporting candidates; the first is (actor 0, evidence 0), the second's actor and evidence ids are symbolic in 0..2 (same / different actor x same / different evidence, without loss of generality); confidences fixed (0.25, 0.5)
// @stubs alloc::fmt::format -> positional model (i-th call returns the identity byte of the i-th key)
// @assume format!("actor:{a}") / format!("evidence:{e}") are injective and the two families are disjoint (positional model)
#[kani::proof]
#[kani::unwind(14)]
#[kani::stub(alloc::fmt::format, format_model)]
fn c20_aggregate_two_groups_are_connected_components() {
    let (a2, e2): (u8, u8) = (kani::any(), kani::any());
    kani::assume(a2 < 2 && e2 < 2);
    set_keys(&[akey(0), ekey(0), akey(a2), ekey(e2)]);
    let v = vec![cand(1, 0, Some(0), "support", 0.25, false), cand(2, a2, Some(e2), "support", 0.5, false)];
    let (score, groups) = aggregate(&v, false);
    assert!(model_calls_ok(4), "format! call pattern as modelled");
    let linked = a2 == 0 || e2 == 0;
    assert!(groups == if linked { 1 } else { 2 }, "groups = connected components of 'shares actor or evidence'");
    assert!(score == if linked { 0.5 } else { 0.625 }, "a group contributes its strongest member; independent groups accumulate as 1 - prod(1 - c)");
    kani::cover!(linked && a2 != 0, "linked by evidence only");
    kani::cover!(linked && e2 != 0, "linked by actor only");
    kani::cover!(!linked, "independent");
    std::mem::forget(v);
}

// the three ways two assertions can relate, one concrete structure per harness, confidences symbolic
fn pair(a2: u8, e2: u8) {
    let (c1, c2): (f64, f64) = (kani::any(), kani::any());
    kani::assume(unit(c1) && unit(c2));
    set_keys(&[akey(0), ekey(0), akey(a2), ekey(e2)]);
    let v = vec![cand(1, 0, Some(0), "support", c1, false), cand(2, a2, Some(e2), "support", c2, false)];
    let (score, groups) = aggregate(&v, false);
    assert!(model_calls_ok(4), "format! call pattern as modelled");
    let linked = a2 == 0 || e2 == 0;
    assert!(groups == if linked { 1 } else { 2 }, "groups = connected components of 'shares actor or evidence'");
    assert!(score >= 0.0 && score <= 1.0, "score within [0,1]");
    if linked {
        let m = if c1 >= c2 { c1 } else { c2 };
        assert!(score == 1.0 - (1.0 - m), "a group contributes its strongest member, not the sum of its members");
    }
    kani::cover!(c2 > c1, "second assertion more confident");
    kani::cover!(c1 > c2 && c2 > 0.0, "second assertion weaker");
    std::mem::forget(v);
}
// @check id=C20 tier=quick cap=900 role=pair_structures harness=c20_pair_same_actor,c20_pair_same_evidence,c20_pair_independent
// @fns projection::aggregate
// @bound two supporting candidates: same actor / different actor citing the same evidence / nothing shared (one concrete structure per harness); confidences any f64 in [0,1]
// @stubs alloc::fmt::format -> positional model
#[kani::proof]
#[kani::unwind(14)]
#[kani::stub(alloc::fmt::format, format_model)]
fn c20_pair_same_actor() {
    pair(0, 1);
}
#[kani::proof]
#[kani::unwind(14)]
#[kani::stub(alloc::fmt::format, format_model)]
fn c20_pair_same_evidence() {
    pair(1, 0);
}
#[kani::proof]
#[kani::unwind(14)]
#[kani::stub(alloc::fmt::format, format_model)]
fn c20_pair_independent() {
    pair(1, 1);
}

// @check id=C20 tier=quick cap=900 role=score_range_two_independent
// @fns projection::aggregate
// @bound two independent supporters (distinct actors, no evidence); confidences ANY non-NaN f64 (incl. negative, > 1, infinite: the clamp is part of the claim)
// @stubs alloc::fmt::format -> positional model
#[kani::proof]
#[kani::unwind(14)]
#[kani::stub(alloc::fmt::format, format_model)]
fn c20_aggregate_score_stays_in_unit_interval() {
    let (c1, c2): (f64, f64) = (kani::any(), kani::any());
    kani::assume(!c1.is_nan() && !c2.is_nan());
    set_keys(&[akey(0), akey(1)]);
    let v = vec![cand(1, 0, None, "support", c1, false), cand(2, 1, None, "support", c2, false)];
    let (score, groups) = aggregate(&v, false);
    assert!(model_calls_ok(2), "format! call pattern as modelled");
    assert!(groups == 2, "two independent groups");
    assert!(score >= 0.0 && score <= 1.0, "score within [0,1] whatever confidences were stored");
    set_keys(&[]);
    let (os, og) = aggregate(&v, true);
    assert!(os == 0.0 && og == 0, "no opposing candidate: empty side scores (0.0, 0)");
    kani::cover!(c1 > 1.0 && c2 < 0.0, "out-of-range confidences clamped");
    kani::cover!(score > 0.0 && score < 1.0, "interior score");
    std::mem::forget(v);
}

// repetition is not support: a candidate whose actor (or evidence) is already present never adds a
// group and changes the score only if it is more confident than its group. Two-run relational query:
// with fully symbolic f64 the solver has to prove two 53-bit multiplier circuits equivalent and did
// not finish (400 s); confidences are therefore on the 1/16 grid (exact arithmetic).
fn repetition(by_actor: bool) {
    let k: [u8; 3] = kani::any();
    kani::assume(k[0] <= 16 && k[1] <= 16 && k[2] <= 16);
    let c = [k[0] as f64 / 16.0, k[1] as f64 / 16.0, k[2] as f64 / 16.0];
    set_keys(&[akey(0), ekey(0), akey(1), ekey(1)]);
    let base = vec![cand(1, 0, Some(0), "support", c[0], false), cand(2, 1, Some(1), "support", c[1], false)];
    let (s0, g0) = aggregate(&base, false);
    assert!(model_calls_ok(4), "format! call pattern as modelled (base)");
    // third candidate: repeats actor 0 with fresh evidence 2, or new actor 2 citing evidence 1
    let (a3, e3) = if by_actor { (0u8, 2u8) } else { (2u8, 1u8) };
    set_keys(&[akey(0), ekey(0), akey(1), ekey(1), akey(a3), ekey(e3)]);
    let more = vec![
        cand(1, 0, Some(0), "support", c[0], false),
        cand(2, 1, Some(1), "support", c[1], false),
        cand(3, a3, Some(e3), "support", c[2], false),
    ];
    let (s1, g1) = aggregate(&more, false);
    assert!(model_calls_ok(6), "format! call pattern as modelled (extended)");
    assert!(g0 == 2 && g1 == 2, "repeating an actor or re-citing evidence adds no independent group");
    let group_max = if by_actor { k[0] } else { k[1] };
    if k[2] <= group_max {
        assert!(s1.to_bits() == s0.to_bits(), "a repetition no more confident than its group changes nothing");
    } else {
        assert!(s1 >= s0, "a stronger member never lowers the score");
    }
    kani::cover!(k[2] > group_max && s1 > s0, "stronger repetition raises the score");
    kani::cover!(k[2] <= group_max && k[2] > 0, "weaker repetition");
    std::mem::forget((base, more));
}
// @check id=C20 tier=quick cap=900 role=repetition_is_not_support harness=c20_repeating_an_actor_adds_no_group,c20_reciting_evidence_adds_no_group
// @fns projection::aggregate
// @bound base: two independent supporters (distinct actors, distinct evidence); added third: same actor as #1 with fresh evidence / new actor citing #2's evidence; confidences on the grid {0, 1/16, .., 1}
// @stubs alloc::fmt::format -> positional model
#[kani::proof]
#[kani::unwind(14)]
#[kani::stub(alloc::fmt::format, format_model)]
fn c20_repeating_an_actor_adds_no_group() {
    repetition(true);
}
#[kani::proof]
#[kani::unwind(14)]
#[kani::stub(alloc::fmt::format, format_model)]
fn c20_reciting_evidence_adds_no_group() {
    repetition(false);
}

// an actor who joined a group through shared evidence stays in it: a later assertion by the same actor
// (sharing no evidence) is repetition, not a new voice (added after seeded change C20-4, which dropped
// the actor key of a candidate that joins through evidence). With symbolic confidences, or with the
// order of the two assertions symbolic, this three-candidate query did not finish in 600 s; the two
// orders are separate fully concrete harnesses (decided by constant propagation).
fn one_voice(y_first_cites_shared: bool) {
    let (e_y1, e_y2) = if y_first_cites_shared { (0u8, 2u8) } else { (2u8, 0u8) };
    set_keys(&[akey(0), ekey(0), akey(1), ekey(e_y1), akey(1), ekey(e_y2)]);
    let v = vec![
        cand(1, 0, Some(0), "support", 0.25, false),
        cand(2, 1, Some(e_y1), "support", 0.5, false),
        cand(3, 1, Some(e_y2), "support", 0.125, false),
    ];
    let (score, groups) = aggregate(&v, false);
    assert!(model_calls_ok(6), "format! call pattern as modelled");
    assert!(groups == 1, "repeating an assertion by an actor already in a group adds no independent group");
    assert!(score == 0.5, "and the group still contributes only its strongest member");
    kani::cover!(groups == 1, "one group");
    std::mem::forget(v);
}
// @check id=C20 tier=quick cap=600 role=actor_key_survives_joining_through_evidence harness=c20_one_voice_speaks_then_links
// @fns projection::aggregate
// @bound X (actor 0, evidence 0), then actor 1 speaks citing fresh evidence 2 and afterwards cites evidence 0 (links to X); confidences fixed (no symbolic input)
// @stubs alloc::fmt::format -> positional model
// @check id=C20 tier=thorough cap=600 role=actor_key_survives_joining_through_evidence harness=c20_one_voice_joins_then_repeats
// @fns projection::aggregate
// @bound the other order: actor 1 first joins X through evidence 0, then repeats citing fresh evidence 2 (the order seeded change C20-4 needs). Even fully concrete this one did not finish in 300 s (Vec growth paths in the merge arm); thorough tier, may not be decided
// @stubs alloc::fmt::format -> positional model
#[kani::proof]
#[kani::unwind(14)]
#[kani::stub(alloc::fmt::format, format_model)]
fn c20_one_voice_joins_then_repeats() {
    one_voice(true);
}
#[kani::proof]
#[kani::unwind(14)]
#[kani::stub(alloc::fmt::format, format_model)]
fn c20_one_voice_speaks_then_links() {
    one_voice(false);
}

// A bridging assertion merges two groups that looked independent; the merged group contributes its
// single strongest member wherever the strongest member was recorded.
fn bridged(pos: u8) {
    let c: [f64; 3] = kani::any();
    kani::assume(unit(c[0]) && unit(c[1]) && unit(c[2]));
    let x = || cand(1, 0, Some(0), "support", c[0], false);
    let y = || cand(2, 1, Some(1), "support", c[1], false);
    let z = || cand(3, 0, Some(1), "support", c[2], false);
    let (kx, ky, kz) = ([akey(0), ekey(0)], [akey(1), ekey(1)], [akey(0), ekey(1)]);
    let v = match pos {
        0 => { set_keys(&[kx[0], kx[1], ky[0], ky[1], kz[0], kz[1]]); vec![x(), y(), z()] }
        1 => { set_keys(&[kx[0], kx[1], kz[0], kz[1], ky[0], ky[1]]); vec![x(), z(), y()] }
        _ => { set_keys(&[kz[0], kz[1], kx[0], kx[1], ky[0], ky[1]]); vec![z(), x(), y()] }
    };
    let (score, groups) = aggregate(&v, false);
    assert!(model_calls_ok(6), "format! call pattern as modelled");
    assert!(groups == 1, "the bridge makes one group wherever it was recorded");
    let m = if c[0] >= c[1] { c[0] } else { c[1] };
    let m = if m >= c[2] { m } else { c[2] };
    assert!(score == 1.0 - (1.0 - m), "one merged group contributes its single strongest member");
    kani::cover!(c[1] > c[0] && c[1] > c[2], "strongest member is Y");
    kani::cover!(c[2] > c[0] && c[2] > c[1], "strongest member is the bridge");
    std::mem::forget(v);
}
// @check id=C20 tier=quick cap=900 role=bridge_keeps_strongest_member harness=c20_bridge_recorded_last,c20_bridge_recorded_first
// @fns projection::aggregate
// @bound X (actor 0, evidence 0), Y (actor 1, evidence 1), Z (actor 0, evidence 1) bridges both; one concrete recording order per harness (XYZ / ZXY); confidences any f64 in [0,1]
// @stubs alloc::fmt::format -> positional model
// @check id=C20 tier=thorough cap=600 role=bridge_keeps_strongest_member harness=c20_bridge_recorded_between
// @fns projection::aggregate
// @bound as above for the order XZY (306 s measured)
// @stubs alloc::fmt::format -> positional model
#[kani::proof]
#[kani::unwind(14)]
#[kani::stub(alloc::fmt::format, format_model)]
fn c20_bridge_recorded_last() {
    bridged(0);
}
#[kani::proof]
#[kani::unwind(14)]
#[kani::stub(alloc::fmt::format, format_model)]
fn c20_bridge_recorded_between() {
    bridged(1);
}
#[kani::proof]
#[kani::unwind(14)]
#[kani::stub(alloc::fmt::format, format_model)]
fn c20_bridge_recorded_first() {
    bridged(2);
}

// groups for a third candidate with symbolic identity (structure only), one recording position per harness
fn three_groups(pos: u8) {
    let (a3, e3): (u8, u8) = (kani::any(), kani::any());
    kani::assume(a3 < 3 && e3 < 3);
    let c1 = || cand(1, 0, Some(0), "support", 0.5, false);
    let c2 = || cand(2, 1, Some(1), "support", 0.5, false);
    let c3 = || cand(3, a3, Some(e3), "support", 0.5, false);
    let (k1, k2, k3) = ([akey(0), ekey(0)], [akey(1), ekey(1)], [akey(a3), ekey(e3)]);
    let v = match pos {
        0 => { set_keys(&[k3[0], k3[1], k1[0], k1[1], k2[0], k2[1]]); vec![c3(), c1(), c2()] }
        1 => { set_keys(&[k1[0], k1[1], k3[0], k3[1], k2[0], k2[1]]); vec![c1(), c3(), c2()] }
        _ => { set_keys(&[k1[0], k1[1], k2[0], k2[1], k3[0], k3[1]]); vec![c1(), c2(), c3()] }
    };
    let (score, groups) = aggregate(&v, false);
    assert!(model_calls_ok(6), "format! call pattern as modelled");
    let links1 = a3 == 0 || e3 == 0;
    let links2 = a3 == 1 || e3 == 1;
    let expect = 3 - links1 as usize - links2 as usize;
    assert!(groups == expect, "groups = connected components wherever the linking assertion was recorded");
    assert!(score == match expect { 1 => 0.5, 2 => 0.75, _ => 0.875 }, "score is a function of the components only");
    kani::cover!(links1 && links2, "third assertion bridges the two groups");
    kani::cover!(expect == 3, "independent third");
    kani::cover!(links1 && !links2 && a3 != 0, "linked to the first by evidence only");
    std::mem::forget(v);
}
// @check id=C20 tier=thorough cap=600 role=groups_are_components_three harness=c20_three_groups_third_first,c20_three_groups_third_between,c20_three_groups_third_last
// @fns projection::aggregate
// @bound candidates 1 and 2 independent (actors 0,1; evidence 0,1); candidate 3 has actor a3 and evidence e3 symbolic in 0..3 (repeat an actor, re-cite evidence, bridge both, or independent); one concrete recording position per harness; confidences fixed
// @stubs alloc::fmt::format -> positional model
#[kani::proof]
#[kani::unwind(14)]
#[kani::stub(alloc::fmt::format, format_model)]
fn c20_three_groups_third_first() {
    three_groups(0);
}
#[kani::proof]
#[kani::unwind(14)]
#[kani::stub(alloc::fmt::format, format_model)]
fn c20_three_groups_third_between() {
    three_groups(1);
}
#[kani::proof]
#[kani::unwind(14)]
#[kani::stub(alloc::fmt::format, format_model)]
fn c20_three_groups_third_last() {
    three_groups(2);
}

// which candidates count on which side (the filter is per candidate, so one candidate suffices).
// A symbolic `opposes_target` makes the side vector's length symbolic and the query did not finish
// (400 s), so the 3 stances x 2 flags are enumerated as six concrete harnesses (decided by CBMC's
// constant propagation; no symbolic input).
fn sides(stance1: &'static str, o1: bool) {
    let v = vec![cand(1, 0, None, stance1, 0.5, o1)];
    set_keys(&[akey(0)]);
    let (ss, sg) = aggregate(&v, false);
    set_keys(&[akey(0)]);
    let (os, og) = aggregate(&v, true);
    let s1 = !o1 && stance1.len() == 7; // "support"
    let p1 = o1 || stance1.len() == 6; // "reject"
    assert!(sg == s1 as usize, "support side = supporting stances that do not oppose the target");
    assert!(og == p1 as usize, "opposition side = reject stances and rival-value supporters");
    assert!(sg + og <= 1, "no assertion counts on both sides");
    assert!(ss == if s1 { 0.5 } else { 0.0 } && os == if p1 { 0.5 } else { 0.0 }, "an empty side scores 0");
    kani::cover!(sg + og == 1 || stance1.len() == 9, "counted on exactly one side unless it abstains");
    std::mem::forget(v);
}
macro_rules! side {
    ($name:ident, $st:expr, $o:expr) => {
        #[kani::proof]
        #[kani::unwind(14)]
        #[kani::stub(alloc::fmt::format, format_model)]
        fn $name() {
            sides($st, $o);
        }
    };
}
// @check id=C20 tier=quick cap=600 role=side_filter harness=c20_side_support,c20_side_support_of_rival,c20_side_reject,c20_side_reject_of_rival,c20_side_uncertain,c20_side_uncertain_of_rival
// @fns projection::aggregate
// @bound one candidate; stance in {support, reject, uncertain} x opposes_target in {false, true}, one concrete combination per harness (complete enumeration, no symbolic input)
// @stubs alloc::fmt::format -> positional model
side!(c20_side_support, "support", false);
side!(c20_side_support_of_rival, "support", true);
side!(c20_side_reject, "reject", false);
side!(c20_side_reject_of_rival, "reject", true);
side!(c20_side_uncertain, "uncertain", false);
side!(c20_side_uncertain_of_rival, "uncertain", true);

// scores never decrease when a group's strongest confidence rises (f64 monotonicity of
// 1 - (1-c)(1-d): a hard bit-level query; thorough tier, reported not decided if it does not fit)
// @check id=C20 tier=thorough cap=600 role=monotone_in_confidence
// @fns projection::aggregate
// @bound two independent supporters; the first one's confidence raised from c to c' >= c; all any f64 in [0,1]
// @stubs alloc::fmt::format -> positional model
#[kani::proof]
#[kani::unwind(14)]
#[kani::stub(alloc::fmt::format, format_model)]
fn c20_aggregate_score_monotone_in_group_maximum() {
    let (c, c_up, d): (f64, f64, f64) = (kani::any(), kani::any(), kani::any());
    kani::assume(unit(c) && unit(c_up) && unit(d) && c_up >= c);
    set_keys(&[akey(0), akey(1)]);
    let lo = vec![cand(1, 0, None, "support", c, false), cand(2, 1, None, "support", d, false)];
    let (s_lo, _) = aggregate(&lo, false);
    set_keys(&[akey(0), akey(1)]);
    let hi = vec![cand(1, 0, None, "support", c_up, false), cand(2, 1, None, "support", d, false)];
    let (s_hi, _) = aggregate(&hi, false);
    assert!(s_hi >= s_lo, "raising a group's strongest confidence never lowers the score");
    kani::cover!(c_up > c && s_hi > s_lo, "strictly higher");
    std::mem::forget((lo, hi));
}

// the same on a 1/16 grid (exact arithmetic, cheap): monotone and strictly increasing below saturation
// @check id=C20 tier=quick cap=900 role=monotone_in_confidence_grid
// @fns projection::aggregate
// @bound as above with confidences on the grid {0, 1/16, .., 1}
// @stubs alloc::fmt::format -> positional model
#[kani::proof]
#[kani::unwind(14)]
#[kani::stub(alloc::fmt::format, format_model)]
fn c20_aggregate_score_monotone_on_grid() {
    let (kc, ku, kd): (u8, u8, u8) = (kani::any(), kani::any(), kani::any());
    kani::assume(kc <= 16 && ku <= 16 && kd <= 16 && ku >= kc);
    let (c, c_up, d) = (kc as f64 / 16.0, ku as f64 / 16.0, kd as f64 / 16.0);
    set_keys(&[akey(0), akey(1)]);
    let lo = vec![cand(1, 0, None, "support", c, false), cand(2, 1, None, "support", d, false)];
    let (s_lo, _) = aggregate(&lo, false);
    set_keys(&[akey(0), akey(1)]);
    let hi = vec![cand(1, 0, None, "support", c_up, false), cand(2, 1, None, "support", d, false)];
    let (s_hi, _) = aggregate(&hi, false);
    assert!(s_hi >= s_lo, "raising a group's strongest confidence never lowers the score");
    if ku > kc && kd < 16 {
        assert!(s_hi > s_lo, "and raises it while the other group is not saturated");
    }
    kani::cover!(ku > kc && kd < 16, "strict case");
    kani::cover!(kd == 16, "saturated partner");
    std::mem::forget((lo, hi));
}

// K2 n = 3: order independence -------------------------------------------------------------------
/// three independent supporters recorded in two different orders
fn three_independent(c: [f64; 3]) -> ((f64, usize), (f64, usize)) {
    set_keys(&[akey(0), akey(1), akey(2)]);
    let v1 = vec![cand(1, 0, None, "support", c[0], false), cand(2, 1, None, "support", c[1], false), cand(3, 2, None, "support", c[2], false)];
    let r1 = aggregate(&v1, false);
    set_keys(&[akey(2), akey(0), akey(1)]);
    let v2 = vec![cand(3, 2, None, "support", c[2], false), cand(1, 0, None, "support", c[0], false), cand(2, 1, None, "support", c[1], false)];
    let r2 = aggregate(&v2, false);
    std::mem::forget((v1, v2));
    (r1, r2)
}

/// Confidences for which the recording order changes the folded product in the last bit (found by
/// the solver on the pinned tree, see known_findings.json): the first three give bit-different
/// scores, the last three straddle the baseline accept threshold 0.7.
const WITNESS_TABLE: [f64; 6] = [
    0.2747342955321005, 0.5599984024264592, 0.4930405020713623,
    4.505561479462017e-10, 0.49836730166003007, 0.4019528608722215,
];
fn table(i: u8) -> f64 {
    match i % 6 {
        0 => WITNESS_TABLE[0],
        1 => WITNESS_TABLE[1],
        2 => WITNESS_TABLE[2],
        3 => WITNESS_TABLE[3],
        4 => WITNESS_TABLE[4],
        _ => WITNESS_TABLE[5],
    }
}

// Quick-tier regression guard for the order-independence clause: the fully symbolic f64 query below
// is fast when a counterexample exists (38 s on the pinned tree) but is a multiplier-equivalence
// proof when none does, so the quick tier draws the three confidences from a six-value table that
// contains the two order-sensitive triples the solver found (216 combinations, decided completely).
// @check id=C20 tier=quick cap=900 role=order_independence_on_witness_table
// @fns projection::aggregate, projection::classify
// @bound three independent supporters; each confidence a symbolic choice from a 6-value table of solver-found order-sensitive confidences; recording orders (1,2,3) and (3,1,2); baseline policy, no opposition
// @stubs alloc::fmt::format -> positional model
#[kani::proof]
#[kani::unwind(14)]
#[kani::stub(alloc::fmt::format, format_model)]
fn c20_order_independence_on_witness_table() {
    let k: [u8; 3] = kani::any();
    kani::assume(k[0] < 6 && k[1] < 6 && k[2] < 6);
    let c = [table(k[0]), table(k[1]), table(k[2])];
    let ((s1, g1), (s2, g2)) = three_independent(c);
    assert!(g1 == 3 && g2 == 3, "three independent groups in either order");
    assert!(s1.to_bits() == s2.to_bits(), "the score depends only on the set of assertions, not on recording order");
    let policy = Policy::baseline();
    let l1 = Ledger { support_groups: g1, ..Default::default() };
    let l2 = Ledger { support_groups: g2, ..Default::default() };
    assert!(classify(s1, 0.0, &l1, &policy) == classify(s2, 0.0, &l2, &policy), "the projected belief does not depend on the order the assertions were recorded in");
    kani::cover!(k[0] == 0 && k[1] == 1 && k[2] == 2, "the score-bits witness triple");
    kani::cover!(k[0] == 3 && k[1] == 4 && k[2] == 5, "the status-flip witness triple");
    std::mem::forget((policy, l1, l2));
}

// (SAT in 38 s when the defect is present; an UNSAT multiplier-equivalence proof when it is not: may not be decided)
// @check id=C20 tier=thorough cap=600 role=order_independence_three_groups
// @fns projection::aggregate
// @bound three independent supporters (three distinct actors, no evidence), confidences any f64 in [0,1]; recording orders (1,2,3) and (3,1,2)
// @stubs alloc::fmt::format -> positional model
#[kani::proof]
#[kani::unwind(14)]
#[kani::stub(alloc::fmt::format, format_model)]
fn c20_aggregate_score_independent_of_recording_order() {
    let c: [f64; 3] = kani::any();
    kani::assume(unit(c[0]) && unit(c[1]) && unit(c[2]));
    let ((s1, g1), (s2, g2)) = three_independent(c);
    assert!(g1 == 3 && g2 == 3, "three independent groups in either order");
    assert!(s1.to_bits() == s2.to_bits(), "the score depends only on the set of assertions, not on recording order");
    kani::cover!(s1 > 0.5 && s1 < 1.0, "non-trivial score");
}

// @check id=C20 tier=thorough cap=600 role=status_independent_of_order_three_groups
// @fns projection::aggregate, projection::classify
// @bound as above, classified under the baseline policy (accept 0.7, material 0.3) with no opposition
// @stubs alloc::fmt::format -> positional model
#[kani::proof]
#[kani::unwind(14)]
#[kani::stub(alloc::fmt::format, format_model)]
fn c20_belief_status_independent_of_recording_order() {
    let c: [f64; 3] = kani::any();
    kani::assume(unit(c[0]) && unit(c[1]) && unit(c[2]));
    let ((s1, g1), (s2, g2)) = three_independent(c);
    let policy = Policy::baseline();
    let l1 = Ledger { support_groups: g1, ..Default::default() };
    let l2 = Ledger { support_groups: g2, ..Default::default() };
    let st1 = classify(s1, 0.0, &l1, &policy);
    let st2 = classify(s2, 0.0, &l2, &policy);
    assert!(st1 == st2, "the projected belief does not depend on the order the assertions were recorded in");
    kani::cover!(st1 == BeliefStatus::Accepted, "accepted reachable");
    kani::cover!(st1 == BeliefStatus::Uncertain, "uncertain reachable");
    std::mem::forget((policy, l1, l2));
}

// ---- the threshold domain the classify harnesses assume (source slice of projection/policy.rs) ------------
// Policy::from_settings reads a serde_json Map (out of reach); the two guards that put every policy it
// returns on 0 <= material <= accept <= 1 are sliced from the current source on every run.
include!("/verif/slices/policy_domain.rs");

// @check id=C20 tier=quick cap=300 needs=slice_policy role=policy_threshold_domain
// @fns projection::policy::threshold (range test, sliced), projection::policy::Policy::from_settings (ordering test, sliced), projection::policy::Policy::baseline
// @bound accept and material each either left at the baseline policy's value or overridden by any f64 bit pattern (symbolic), kept only if the sliced range test lets it through; the pair kept only if the sliced ordering test lets it through
// @assume from_settings stores exactly the value the range test accepted (the slicer checks that `Ok(Some(value))` follows the test) and applies the ordering test after both overrides (read off the source)
#[kani::proof]
fn c20_every_accepted_policy_lies_on_the_threshold_domain() {
    let base = Policy::baseline();
    let (override_accept, override_material): (bool, bool) = (kani::any(), kani::any());
    let (a, m): (f64, f64) = (kani::any(), kani::any());
    if override_accept {
        kani::assume(!slice_threshold_rejects(a));
    }
    if override_material {
        kani::assume(!slice_threshold_rejects(m));
    }
    let accept = if override_accept { a } else { base.accept };
    let material = if override_material { m } else { base.material };
    kani::assume(!slice_policy_rejects(material, accept));
    assert!(0.0 <= material && material <= accept && accept <= 1.0, "every policy from_settings returns has 0 <= material <= accept <= 1 - the domain on which the classification laws are decided");
    assert!(!accept.is_nan() && !material.is_nan(), "and neither boundary is NaN");
    kani::cover!(override_accept && override_material && material == accept, "material may equal accept");
    kani::cover!(override_material && !override_accept && material == 0.0, "material = 0 admitted");
    kani::cover!(!override_accept && !override_material, "plain baseline");
    std::mem::forget(base);
}

// ---- stage 6 and the confidence a Candidate carries ---------------------------------------------------
// `eligible` reaches Policy::admits only through serde_json (stubbed away above), so admits is decided
// directly; the confidence expression is sliced from the current source (slices/candidate_confidence.rs).
// Added after seeded changes C20-7 (a stated confidence of exactly 0 treated as unstated) and C20-8 (an
// empty mode list admits every mode).
fn mode_from(k: u8) -> AssertionMode {
    match k {
        0 => AssertionMode::Observed,
        1 => AssertionMode::Stated,
        2 => AssertionMode::Inferred,
        3 => AssertionMode::Predicted,
        4 => AssertionMode::Hypothetical,
        _ => AssertionMode::Imported,
    }
}
// @check id=C20 tier=quick cap=300 role=policy_admits_only_listed_modes
// @fns projection::policy::Policy::admits
// @bound policy mode list of 0..2 modes (each any of the six, symbolic); the assertion's mode absent or any of the six
#[kani::proof]
#[kani::unwind(4)]
fn c20_policy_admits_exactly_the_listed_modes() {
    let (a, b, q): (u8, u8, u8) = (kani::any(), kani::any(), kani::any());
    kani::assume(a < 6 && b < 6 && q < 6);
    let n: u8 = kani::any();
    kani::assume(n <= 2);
    let mut policy = Policy::baseline();
    policy.modes = match n {
        0 => vec![],
        1 => vec![mode_from(a)],
        _ => vec![mode_from(a), mode_from(b)],
    };
    let has_mode: bool = kani::any();
    let got = policy.admits(if has_mode { Some(mode_from(q)) } else { None });
    let listed = (n >= 1 && q == a) || (n == 2 && q == b);
    assert!(got == (has_mode && listed), "a mode is admitted iff the assertion records one and the policy lists it; an empty list admits nothing");
    kani::cover!(got && n == 2 && q == b && q != a, "admitted as the second listed mode");
    kani::cover!(!got && n == 0 && has_mode, "empty list admits nothing");
    kani::cover!(!got && !has_mode && n == 2, "no recorded mode is never admitted");
    std::mem::forget(policy);
}

include!("/verif/slices/candidate_confidence.rs");
// @check id=C20 tier=quick cap=300 needs=slice_confidence role=candidate_confidence
// @fns projection::Context::eligible (the Candidate's confidence expression, sliced)
// @bound every f64 row confidence and every f64 unstated-confidence default
// @assume the sliced expression is the one eligible() stores in Candidate.confidence (extracted textually, anchored on the field name inside fn eligible)
#[kani::proof]
fn c20_a_stated_confidence_is_used_as_stated() {
    let (c, u): (f64, f64) = (kani::any(), kani::any());
    let got = slice_candidate_confidence(c, u);
    if c >= 0.0 && c <= 1.0 {
        assert!(got.to_bits() == c.to_bits(), "a stated confidence in [0, 1] - zero included - is what the candidate carries");
    }
    if c < 0.0 {
        assert!(got.to_bits() == u.to_bits(), "the negative sentinel (no stated confidence) takes the policy's default");
    }
    kani::cover!(c == 0.0 && u > 0.0, "stated zero");
    kani::cover!(c < 0.0, "unstated");
}

// @check id=C20 tier=thorough cap=600 expect=fail role=witness
// @fns projection::aggregate
// @bound vacuity twin: must come back FAILED
// @stubs alloc::fmt::format -> positional model
#[kani::proof]
#[kani::unwind(14)]
#[kani::stub(alloc::fmt::format, format_model)]
fn c20_witness_must_fail() {
    let c: f64 = kani::any();
    kani::assume(unit(c));
    set_keys(&[akey(0), akey(1)]);
    let v = vec![cand(1, 0, None, "support", c, false), cand(2, 1, None, "support", c, false)];
    let (s, g) = aggregate(&v, false);
    std::mem::forget(v);
    assert!(g == 2 && s < 0.0, "reachability witness");
}

// eligibility (stages 4-6) -------------------------------------------------------------------------
// `Context::eligible` takes `&self` but never reads it; the harness passes a reference to an
// uninitialized allocation that is never read, so the stage logic is decided without a store.
fn no_context() -> &'static Context<'static> {
    // a real (leaked, uninitialized) allocation of the right size, so forming the reference is fine;
    // `eligible` never reads through it
    let slot: &'static mut std::mem::MaybeUninit<Context<'static>> = Box::leak(Box::new(std::mem::MaybeUninit::uninit()));
    unsafe { slot.assume_init_ref() }
}
fn instant2() -> String {
    let a: u8 = kani::any();
    let b: u8 = kani::any();
    kani::assume(a >= b'0' && a <= b'9' && b >= b'0' && b <= b'9');
    unsafe { String::from_utf8_unchecked(vec![a, b]) }
}
fn opt_instant2() -> String {
    if kani::any() { String::new() } else { instant2() }
}
fn active_row() -> AssertionRow {
    AssertionRow {
        _id: 7,
        state: "active".to_string(),
        status: "active".to_string(),
        stance: "support".to_string(),
        mode: "observed".to_string(),
        asserted_by_key: "a".to_string(),
        confidence: 0.5,
        ..Default::default()
    }
}
fn fmt_empty(_: std::fmt::Arguments<'_>) -> String {
    String::new()
}

/// Stage 6 deserializes the mode with serde_json::from_value, which CBMC does not get through
/// (400 s). For the stage 4/5 harnesses it is replaced by "cannot read the mode" - the row is then
/// excluded as invalid_schema *after* the lifecycle and temporal stages have let it through, so the
/// reason still tells which stage decided. Assertions are written so that they also hold natively
/// (real from_value: the row becomes a candidate instead).
fn from_value_unreadable<T: serde::de::DeserializeOwned>(_v: Json) -> Result<T, serde_json::Error> {
    Err(<serde_json::Error as serde::de::Error>::custom("x"))
}

// @check id=C20 tier=quick cap=900 role=eligible_temporal_window
// @fns projection::Context::eligible
// @bound an active, visible assertion with valid_from / valid_until each "" or any two-digit instant; evaluation time any two-digit instant
// @stubs alloc::fmt::format -> String::new(); serde_json::from_value -> Err (stage 6 cut: the row is then reported invalid_schema instead of becoming a candidate)
// @assume instants are fixed-width RFC 3339 UTC strings, so lexicographic order is chronological order
#[kani::proof]
#[kani::unwind(12)]
#[kani::stub(alloc::fmt::format, fmt_empty)]
#[kani::stub(serde_json::from_value, from_value_unreadable)]
fn c20_eligible_only_inside_the_validity_window() {
    let mut row = active_row();
    row.valid_from = opt_instant2();
    row.valid_until = opt_instant2();
    let at = instant2();
    let policy = Policy::baseline();
    let r = no_context().eligible(&row, &policy, &at);
    let inside = (row.valid_from.is_empty() || row.valid_from.as_str() <= at.as_str())
        && (row.valid_until.is_empty() || at.as_str() < row.valid_until.as_str());
    let excluded_by_window = matches!(&r, Err(e) if e.reason.len() == 18); // "outside_valid_time"
    assert!(excluded_by_window == !inside, "an assertion is excluded as outside_valid_time iff the evaluation time is outside [valid_from, valid_until)");
    kani::cover!(excluded_by_window && at.as_str() == row.valid_until.as_str(), "excluded exactly at valid_until (half-open window)");
    kani::cover!(!excluded_by_window && at.as_str() == row.valid_from.as_str(), "let through exactly at valid_from");
    kani::cover!(!excluded_by_window && row.valid_until.is_empty() && row.valid_from.is_empty(), "no window means always");
    std::mem::forget((r, row, at, policy));
}

// @check id=C20 tier=quick cap=900 role=eligible_lifecycle
// @fns projection::Context::eligible
// @bound lifecycle status retracted / superseded / expired / unknown, state archived (one concrete row each)
// @stubs alloc::fmt::format -> String::new(); serde_json::from_value -> Err (not reached by these rows)
#[kani::proof]
#[kani::unwind(12)]
#[kani::stub(alloc::fmt::format, fmt_empty)]
#[kani::stub(serde_json::from_value, from_value_unreadable)]
fn c20_eligible_lifecycle_exclusions() {
    let policy = Policy::baseline();
    let ctx = no_context();
    let check = |status: &str, state: &str, reason_len: usize| {
        let mut row = active_row();
        row.status = status.to_string();
        row.state = state.to_string();
        let r = ctx.eligible(&row, &policy, "11");
        let ok = matches!(&r, Err(e) if e.reason.len() == reason_len);
        std::mem::forget((r, row));
        ok
    };
    assert!(check("retracted", "active", 9), "a retracted assertion is excluded as 'retracted'");
    assert!(check("superseded", "active", 10), "a superseded assertion is excluded as 'superseded'");
    assert!(check("expired", "active", 7), "an expired assertion is excluded as 'expired'");
    assert!(check("zz", "active", 14), "an unknown lifecycle status is excluded as 'invalid_schema'");
    assert!(check("active", "archived", 11), "an archived element is excluded as 'not_visible'");
    kani::cover!(check("retracted", "archived", 9), "lifecycle is judged before visibility");
    std::mem::forget(policy);
}

// (needs the real serde_json::from_value: did not finish in 400 s; thorough tier, expected not decided)
// @check id=C20 tier=thorough cap=400 role=eligible_modes
// @fns projection::Context::eligible, projection::policy::Policy::admits, projection::policy::Policy::mode_exclusion
// @bound each assertion mode (observed, stated, inferred, imported, predicted, hypothetical, unknown, empty) under the baseline policy, one concrete row each
// @stubs alloc::fmt::format -> String::new()
#[kani::proof]
#[kani::unwind(14)]
#[kani::stub(alloc::fmt::format, fmt_empty)]
fn c20_eligible_admits_only_the_policys_modes() {
    let policy = Policy::baseline();
    let ctx = no_context();
    let check = |mode: &str| {
        let mut row = active_row();
        row.mode = mode.to_string();
        let r = ctx.eligible(&row, &policy, "11");
        let out = match &r {
            Ok(_) => 0usize,
            Err(e) => e.reason.len(),
        };
        std::mem::forget((r, row));
        out
    };
    assert!(check("observed") == 0 && check("stated") == 0 && check("inferred") == 0 && check("imported") == 0, "factual modes are admitted by the baseline policy");
    assert!(check("hypothetical") == 26, "a hypothetical contributes nothing and is listed as hypothetical_not_requested");
    assert!(check("predicted") == 24, "a prediction contributes nothing and is listed as prediction_not_requested");
    assert!(check("zz") == 14 && check("") == 14, "an unknown or missing mode is excluded as invalid_schema");
    kani::cover!(check("Observed") == 14, "mode names are case sensitive");
    std::mem::forget(policy);
}
