// @module governance::redact::verif_kani
// Kani harnesses for rs/anda_cognitive_nexus/src/governance/redact.rs — property C19, "masked fields
// cannot be inferred": `apply` narrows the cached view once, before FILTER / ORDER BY / projection read
// it. The view is a serde_json object (BTreeMap: out of CBMC's reach); WHICH members survive is decided
// by the closure handed to `object.retain`, which the driver slices from the current source on every
// run (slices/redact_mask.rs).
use super::*;
include!("/verif/slices/redact_mask.rs");

fn sym_string<const N: usize>() -> String {
    let raw: [u8; N] = kani::any();
    let mut i = 0;
    while i < N {
        kani::assume(raw[i] >= b'_' && raw[i] <= b'z');
        i += 1;
    }
    unsafe { String::from_utf8_unchecked(raw.to_vec()) }
}
fn eq_bytes(a: &String, b: &[u8]) -> bool {
    let a = a.as_bytes();
    if a.len() != b.len() {
        return false;
    }
    let mut i = 0;
    while i < a.len() {
        if a[i] != b[i] {
            return false;
        }
        i += 1;
    }
    true
}
/// members every mask leaves in place (module docs: identity survives every mask) - nothing else may
fn identity_member(key: &String) -> bool {
    eq_bytes(key, b"id") || eq_bytes(key, b"kind") || eq_bytes(key, b"space_id")
}
fn mask(fields: Vec<String>) -> AuthorityConstraints {
    AuthorityConstraints { fields, max_results: None, max_influence_authority: String::new(), max_classification: String::new(), export: false }
}

macro_rules! mask_len {
    ($name:ident, $n:expr, $unwind:expr $(, $identity_cover:literal)?) => {
        #[kani::proof]
        #[kani::unwind($unwind)]
        fn $name() {
            let key = sym_string::<$n>();
            let listed = sym_string::<$n>();
            let other = String::from("zz_other_member");
            let c = mask(vec![other, listed.clone()]);
            let kept = slice_mask_keeps(&key, &c);
            let same = eq_bytes(&key, listed.as_bytes());
            assert!(kept == (identity_member(&key) || same), "under a field mask a member survives iff it is id / kind / space_id or the mask lists exactly that name");
            $(kani::cover!(kept && !same, $identity_cover);)?
            kani::cover!(kept && same && !identity_member(&key), "listed member kept");
            kani::cover!(!kept, "unlisted member dropped");
            std::mem::forget((key, listed, c));
        }
    };
}
// @check id=C19 tier=quick cap=300 needs=slice_redact role=redact_mask_members harness=c19_mask_members_len1,c19_mask_members_len2,c19_mask_members_len3,c19_mask_members_len4,c19_mask_members_len5,c19_mask_members_len6,c19_mask_members_len7,c19_mask_members_len8,c19_mask_members_len9,c19_mask_members_len10
// @fns governance::redact::apply (the retain predicate, sliced)
// @bound every member name of length 1..10 over bytes '_'..'z' (2, 4, 8 are the lengths of id / kind / space_id; 7 that of _system; 10 that of attributes / governance) against a mask listing a fixed long name and one symbolic name of the same length
// @assume the sliced closure is the one `apply` hands to object.retain (anchors missing -> not decided); serde_json's retain keeps exactly the members the predicate accepts
mask_len!(c19_mask_members_len1, 1, 18);
mask_len!(c19_mask_members_len2, 2, 18, "identity member kept although not listed");
mask_len!(c19_mask_members_len3, 3, 18);
mask_len!(c19_mask_members_len4, 4, 18, "identity member kept although not listed");
mask_len!(c19_mask_members_len5, 5, 18);
mask_len!(c19_mask_members_len6, 6, 18);
mask_len!(c19_mask_members_len7, 7, 18);
mask_len!(c19_mask_members_len8, 8, 18, "identity member kept although not listed");
mask_len!(c19_mask_members_len9, 9, 18);
mask_len!(c19_mask_members_len10, 10, 18);

// members that must never survive a mask that does not name them, whatever else it names: the engine
// block (`_system`, carries origin and version) and the content members
macro_rules! mask_drops {
    ($name:ident, $member:expr) => {
        #[kani::proof]
        #[kani::unwind(18)]
        fn $name() {
            let key = String::from($member);
            let listed = sym_string::<4>();
            let c = mask(vec![listed.clone()]);
            let kept = slice_mask_keeps(&key, &c);
            assert!(!kept, "a member the mask does not name is dropped (its name has another length than the one listed name)");
            std::mem::forget((key, listed, c));
        }
    };
}
// @check id=C19 tier=quick cap=300 needs=slice_redact role=redact_mask_drops harness=c19_mask_drops_system,c19_mask_drops_attributes,c19_mask_drops_governance
// @fns governance::redact::apply (the retain predicate, sliced)
// @bound members `_system`, `attributes`, `governance` against every mask listing one 4-byte name
mask_drops!(c19_mask_drops_system, "_system");
mask_drops!(c19_mask_drops_attributes, "attributes");
mask_drops!(c19_mask_drops_governance, "governance");
