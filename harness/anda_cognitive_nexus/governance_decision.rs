// harness for rs/anda_cognitive_nexus/src/governance/decision.rs (mounted by #[cfg(kani)] hook)
