// @module governance::decision::verif_kani
// Kani harnesses for rs/anda_cognitive_nexus/src/governance/decision.rs — property C19:
// default-deny matching (covers, scope_matches, reaches_classification, conditions_hold,
// candidate_matches), immediate expiry, and attenuation of scope / conditions through the real
// `contains` functions that resolve_delegation consults.
use super::*;
include!("/verif/harness/common.rs");

fn lab() -> String {
    let b: u8 = kani::any();
    kani::assume(b >= b'a' && b <= b'c');
    unsafe { String::from_utf8_unchecked(vec![b]) }
}
fn opt_lab() -> String {
    if kani::any() { String::new() } else { lab() }
}
fn list() -> Vec<String> {
    let n: u8 = kani::any();
    kani::assume(n <= 2);
    match n {
        0 => vec![],
        1 => vec![lab()],
        _ => vec![lab(), lab()],
    }
}
/// independent reading of "bounded list admits value" (empty = everything; empty value never
/// matches a bounded list)
fn admits(bound: &[String], value: &str) -> bool {
    if bound.is_empty() {
        return true;
    }
    if value.is_empty() {
        return false;
    }
    let mut i = 0;
    let mut hit = false;
    while i < bound.len() {
        if bound[i].as_bytes()[0] == value.as_bytes()[0] {
            hit = true;
        }
        i += 1;
    }
    hit
}
fn instant() -> String {
    let a: u8 = kani::any();
    let b: u8 = kani::any();
    kani::assume(a >= b'0' && a <= b'9' && b >= b'0' && b <= b'9');
    unsafe { String::from_utf8_unchecked(vec![a, b]) }
}
fn opt_instant() -> String {
    if kani::any() { String::new() } else { instant() }
}
fn class_label(i: u8) -> &'static str {
    match i % 7 {
        0 => "",
        1 => "public",
        2 => "internal",
        3 => "private",
        4 => "sensitive",
        5 => "secret",
        _ => "zz",
    }
}
fn strength(i: u8) -> &'static str {
    match i % 5 {
        0 => "",
        1 => "none",
        2 => "standard",
        3 => "strong",
        _ => "zz",
    }
}
fn assurance(i: u8) -> &'static str {
    match i % 6 {
        0 => "",
        1 => "declared",
        2 => "session_bound",
        3 => "system_bound",
        4 => "approved",
        _ => "zz",
    }
}
fn auth_with(strength_: &str, assurance_: &str, purpose: String) -> AuthContext {
    let mut a = AuthContext::principal("p");
    a.auth_strength = strength_.to_string();
    a.purpose_assurance = assurance_.to_string();
    a.purpose = purpose;
    a
}

// K1 -------------------------------------------------------------------------------------------
// @check id=C19 tier=quick cap=600 role=covers_default_deny
// @fns governance::decision::covers, governance::decision::scope_matches
// @bound four bounded lists of 0..2 one-byte labels (symbolic bytes a..c), resource kind / schema_ref / classification / element id each "" or a one-byte label
#[kani::proof]
#[kani::unwind(4)]
fn c19_scope_matches_is_per_dimension_membership() {
    let scope = AuthorityScope { kinds: list(), schema_refs: list(), classifications: list(), elements: list() };
    let res = ResourceContext { kind: opt_lab(), schema_ref: opt_lab(), classification: opt_lab(), element_id: opt_lab() };
    let got = scope_matches(&scope, &res);
    let expect = admits(&scope.kinds, &res.kind)
        && admits(&scope.schema_refs, &res.schema_ref)
        && admits(&scope.classifications, &res.classification)
        && admits(&scope.elements, &res.element_id);
    assert!(got == expect, "a scope matches iff every bounded dimension contains the resource's (non-empty) value");
    if !scope.elements.is_empty() && res.element_id.is_empty() {
        assert!(!got, "no particular element in view never matches a grant narrowed to elements");
    }
    kani::cover!(got && !scope.kinds.is_empty() && !scope.elements.is_empty(), "matched under two bounded dimensions");
    kani::cover!(!got && admits(&scope.kinds, &res.kind) && admits(&scope.elements, &res.element_id), "refused by schema_ref or classification dimension");
    std::mem::forget((scope, res));
}

// @check id=C19 tier=quick cap=900 role=conditions_hold_truth_table
// @fns governance::decision::conditions_hold, governance::rows::auth_strength::rank, governance::rows::purpose_assurance::rank
// @bound valid_from / valid_until "" or any two-digit instant, now any two-digit instant; min/actual auth strength and purpose assurance over every defined name + "" + unknown; purpose list 0..2 labels, actual purpose "" or a label
// @assume instants are fixed-width RFC 3339 UTC strings, so lexicographic order is chronological order
#[kani::proof]
#[kani::unwind(15)]
fn c19_conditions_hold_truth_table_and_immediate_expiry() {
    let (s_min, s_act) = (strength(kani::any()), strength(kani::any()));
    let (p_min, p_act) = (assurance(kani::any()), assurance(kani::any()));
    let cond = AuthorityConditions {
        purpose: list(),
        min_purpose_assurance: p_min.to_string(),
        min_auth_strength: s_min.to_string(),
        valid_from: opt_instant(),
        valid_until: opt_instant(),
    };
    let auth = auth_with(s_act, p_act, opt_lab());
    let now = instant();
    let got = conditions_hold(&cond, &auth, &now);
    let srank = |s: &str| match s { "strong" => 2u8, "standard" => 1, _ => 0 };
    let prank = |s: &str| match s { "approved" => 3u8, "system_bound" => 2, "session_bound" => 1, _ => 0 };
    let purpose_ok = if cond.purpose.is_empty() { true } else {
        // an allow-listed purpose must be stated and listed
        let mut hit = false;
        let mut i = 0;
        while i < cond.purpose.len() {
            if !auth.purpose.is_empty() && cond.purpose[i].as_bytes()[0] == auth.purpose.as_bytes()[0] {
                hit = true;
            }
            i += 1;
        }
        hit
    };
    let expect = (cond.valid_from.is_empty() || now.as_str() >= cond.valid_from.as_str())
        && (cond.valid_until.is_empty() || now.as_str() < cond.valid_until.as_str())
        && srank(s_act) >= srank(s_min)
        && prank(p_act) >= prank(p_min)
        && purpose_ok;
    assert!(got == expect, "conditions hold iff inside [valid_from, valid_until), strong enough, assured enough and for a listed purpose");
    if !cond.valid_until.is_empty() && now.as_str() >= cond.valid_until.as_str() {
        assert!(!got, "expiry is immediate: at valid_until the authority is gone");
    }
    if srank(s_min) > 0 && (s_act == "zz" || s_act.is_empty()) {
        assert!(!got, "an unknown or absent auth strength satisfies no bar");
    }
    kani::cover!(got && !cond.valid_until.is_empty() && !cond.valid_from.is_empty(), "inside a two-sided window");
    kani::cover!(!got && now.as_str() == cond.valid_until.as_str(), "refused exactly at valid_until");
    kani::cover!(!got && expect_only_purpose(&cond, &auth), "refused by purpose");
    std::mem::forget((cond, auth, now));
}
fn expect_only_purpose(cond: &AuthorityConditions, auth: &AuthContext) -> bool {
    !cond.purpose.is_empty() && auth.purpose.is_empty()
}

// @check id=C19 tier=quick cap=900 role=candidate_default_deny
// @fns governance::decision::candidate_matches, governance::decision::scope_matches, governance::decision::reaches_classification, governance::decision::conditions_hold, governance::classification::rank
// @bound candidate: action list [] / [read] / [update] / [update, read]; scope kinds & elements lists of 0..2 symbolic labels; classification ceiling and resource classification over every defined label + "" + unknown; validity window and now symbolic two-digit instants; resource kind a label, element "" or a label
#[kani::proof]
#[kani::unwind(12)]
fn c19_candidate_matches_is_default_deny() {
    let act: u8 = kani::any();
    kani::assume(act < 4);
    let actions: Vec<String> = match act {
        0 => vec![],
        1 => vec!["read".to_string()],
        2 => vec!["update".to_string()],
        _ => vec!["update".to_string(), "read".to_string()],
    };
    let ceiling = class_label(kani::any());
    let res_class = class_label(kani::any());
    let cand = Candidate {
        id: String::new(),
        actions,
        scope: AuthorityScope { kinds: list(), schema_refs: vec![], classifications: vec![], elements: list() },
        conditions: AuthorityConditions { valid_from: opt_instant(), valid_until: opt_instant(), ..Default::default() },
        constraints: AuthorityConstraints { max_classification: ceiling.to_string(), ..Default::default() },
        delegation_allowed: false,
    };
    let res = ResourceContext { kind: lab(), schema_ref: String::new(), classification: res_class.to_string(), element_id: opt_lab() };
    let auth = AuthContext::principal("p");
    let now = instant();
    let got = candidate_matches(&cand, Permission::Read, &res, &auth, &now);
    let crank = |s: &str| match s { "public" => 0u8, "internal" | "" => 1, "private" => 2, "sensitive" => 3, "secret" => 4, _ => 255 };
    let listed = act == 1 || act == 3;
    let in_scope = admits(&cand.scope.kinds, &res.kind) && admits(&cand.scope.elements, &res.element_id);
    let under_ceiling = ceiling.is_empty() || crank(res_class) <= crank(ceiling);
    let in_window = (cand.conditions.valid_from.is_empty() || now.as_str() >= cand.conditions.valid_from.as_str())
        && (cand.conditions.valid_until.is_empty() || now.as_str() < cand.conditions.valid_until.as_str());
    assert!(got == (listed && in_scope && under_ceiling && in_window), "an authority applies iff the permission is listed, the resource is in scope and under the ceiling, and the window is open");
    if act == 0 {
        assert!(!got, "an empty action list confers nothing");
    }
    if res_class == "zz" && !ceiling.is_empty() && ceiling != "zz" {
        assert!(!got, "an unknown classification never falls below a stated ceiling");
    }
    kani::cover!(got && !cand.scope.kinds.is_empty() && !ceiling.is_empty(), "allowed under a bounded scope and a ceiling");
    kani::cover!(!got && listed && in_scope && in_window, "refused by the classification ceiling alone");
    kani::cover!(!got && listed && in_scope && under_ceiling, "refused by the validity window alone");
    std::mem::forget((cand, res, auth, now));
}

// A command with no particular element in view (space scope) is judged on actions and conditions only.
// @check id=C19 tier=quick cap=600 role=space_scope
// @fns governance::decision::candidate_matches, governance::decision::ResourceContext::is_space_scope
// @bound space-scope resource (all four fields empty); candidate scope lists symbolic; action listed or not; window symbolic
#[kani::proof]
#[kani::unwind(12)]
fn c19_space_scope_still_needs_action_and_open_window() {
    let listed: bool = kani::any();
    let cand = Candidate {
        id: String::new(),
        actions: if listed { vec!["read".to_string()] } else { vec!["update".to_string()] },
        scope: AuthorityScope { kinds: list(), schema_refs: vec![], classifications: vec![], elements: list() },
        conditions: AuthorityConditions { valid_until: opt_instant(), ..Default::default() },
        constraints: AuthorityConstraints::default(),
        delegation_allowed: false,
    };
    let res = ResourceContext::default();
    let auth = AuthContext::principal("p");
    let now = instant();
    let got = candidate_matches(&cand, Permission::Read, &res, &auth, &now);
    let open = cand.conditions.valid_until.is_empty() || now.as_str() < cand.conditions.valid_until.as_str();
    assert!(got == (listed && open), "space scope: listed action and open window, nothing else");
    kani::cover!(got && !cand.scope.kinds.is_empty(), "scoped grant may run its own space-level command");
    kani::cover!(!got && listed, "expired at space scope");
    std::mem::forget((cand, res, auth, now));
}

// K2 attenuation through the real contains() -----------------------------------------------------
// @check id=C19 tier=quick cap=900 role=scope_attenuation
// @fns governance::rows::AuthorityScope::contains, governance::rows::narrows, governance::decision::scope_matches
// @bound parent and child scopes: kinds and elements lists of 0..2 symbolic labels (schema_refs / classifications: 0..1); resource fields "" or a label
#[kani::proof]
#[kani::unwind(4)]
fn c19_contained_scope_admits_no_more_than_parent() {
    let l01 = || if kani::any() { vec![] } else { vec![lab()] };
    let parent = AuthorityScope { kinds: list(), schema_refs: l01(), classifications: l01(), elements: list() };
    let child = AuthorityScope { kinds: list(), schema_refs: l01(), classifications: l01(), elements: list() };
    let res = ResourceContext { kind: opt_lab(), schema_ref: opt_lab(), classification: opt_lab(), element_id: opt_lab() };
    let contained = parent.contains(&child);
    if contained && scope_matches(&child, &res) {
        assert!(scope_matches(&parent, &res), "a delegation's scope admits nothing its delegator's does not");
    }
    kani::cover!(contained && !parent.kinds.is_empty() && !parent.elements.is_empty(), "contained under a bounded parent");
    kani::cover!(!contained && !parent.kinds.is_empty() && child.kinds.is_empty(), "unrestricted child refused");
    std::mem::forget((parent, child, res));
}

// @check id=C19 tier=quick cap=900 role=conditions_attenuation_window
// @fns governance::rows::AuthorityConditions::contains, governance::rows::at_least, governance::rows::at_most, governance::decision::conditions_hold
// @bound parent and child windows "" or two-digit instants (purpose and bars unstated); now a two-digit instant
#[kani::proof]
#[kani::unwind(10)]
fn c19_contained_conditions_window() {
    let parent = AuthorityConditions { valid_from: opt_instant(), valid_until: opt_instant(), ..Default::default() };
    let child = AuthorityConditions { valid_from: opt_instant(), valid_until: opt_instant(), ..Default::default() };
    let auth = auth_with("standard", "", String::new());
    let now = instant();
    let contained = parent.contains(&child);
    if contained && conditions_hold(&child, &auth, &now) {
        assert!(conditions_hold(&parent, &auth, &now), "whenever the delegation's window is open, the delegator's is");
    }
    if contained && !parent.valid_until.is_empty() {
        assert!(!child.valid_until.is_empty() && child.valid_until.as_str() <= parent.valid_until.as_str(), "a delegation never outlives its delegator");
    }
    kani::cover!(contained && !parent.valid_until.is_empty() && !parent.valid_from.is_empty(), "contained under a two-sided parent window");
    kani::cover!(!contained && parent.valid_from.is_empty(), "refused on valid_until alone");
    std::mem::forget((parent, child, auth, now));
}

// (thorough: 317 s measured; the quick tier decides the same clause through c19_narrows_implies_child_admits_subset
// and the purpose column of c19_conditions_hold_truth_table_and_immediate_expiry)
// @check id=C19 tier=thorough cap=1500 role=conditions_attenuation_purpose
// @fns governance::rows::AuthorityConditions::contains, governance::rows::narrows, governance::decision::conditions_hold
// @bound parent and child purpose lists of 0..2 one-byte labels; actual purpose "" or a label (window and bars unstated)
#[kani::proof]
#[kani::unwind(10)]
fn c19_contained_conditions_purpose() {
    let parent = AuthorityConditions { purpose: list(), ..Default::default() };
    let child = AuthorityConditions { purpose: list(), ..Default::default() };
    let auth = auth_with("standard", "", opt_lab());
    let contained = parent.contains(&child);
    if contained && conditions_hold(&child, &auth, "11") {
        assert!(conditions_hold(&parent, &auth, "11"), "a delegation is not usable for a purpose its delegator is not");
    }
    kani::cover!(contained && parent.purpose.len() == 2 && child.purpose.len() == 1, "contained under a purpose-limited parent");
    kani::cover!(!contained && child.purpose.is_empty(), "any-purpose child refused");
    std::mem::forget((parent, child, auth));
}

// window and purpose together (thorough: 452 s measured)
// @check id=C19 tier=thorough cap=1500 role=conditions_attenuation_window_purpose
// @fns governance::rows::AuthorityConditions::contains, governance::decision::conditions_hold
// @bound purpose lists 0..2 labels and windows symbolic at once
#[kani::proof]
#[kani::unwind(10)]
fn c19_contained_conditions_window_and_purpose() {
    let parent = AuthorityConditions { purpose: list(), valid_from: opt_instant(), valid_until: opt_instant(), ..Default::default() };
    let child = AuthorityConditions { purpose: list(), valid_from: opt_instant(), valid_until: opt_instant(), ..Default::default() };
    let auth = auth_with("standard", "", opt_lab());
    let now = instant();
    let contained = parent.contains(&child);
    if contained && conditions_hold(&child, &auth, &now) {
        assert!(conditions_hold(&parent, &auth, &now), "whenever the delegation's conditions hold, the delegator's hold");
    }
    kani::cover!(contained && !parent.valid_until.is_empty() && !parent.purpose.is_empty(), "contained under a bounded parent");
    std::mem::forget((parent, child, auth, now));
}

// @check id=C19 tier=quick cap=900 role=conditions_attenuation_bars
// @fns governance::rows::AuthorityConditions::contains, governance::decision::conditions_hold, governance::rows::auth_strength::rank, governance::rows::purpose_assurance::rank
// @bound parent / child / actual auth strength and purpose assurance: each over every defined name + "" + unknown; no window, no purpose list
#[kani::proof]
#[kani::unwind(15)]
fn c19_contained_conditions_strength_and_assurance_bars() {
    let parent = AuthorityConditions { min_auth_strength: strength(kani::any()).to_string(), min_purpose_assurance: assurance(kani::any()).to_string(), ..Default::default() };
    let child = AuthorityConditions { min_auth_strength: strength(kani::any()).to_string(), min_purpose_assurance: assurance(kani::any()).to_string(), ..Default::default() };
    let auth = auth_with(strength(kani::any()), assurance(kani::any()), String::new());
    let contained = parent.contains(&child);
    if contained && conditions_hold(&child, &auth, "11") {
        assert!(conditions_hold(&parent, &auth, "11"), "a delegation never lowers the authentication or purpose bar");
    }
    kani::cover!(contained && parent.min_auth_strength.len() == 6, "contained under a 'strong' bar");
    kani::cover!(!contained && parent.min_purpose_assurance.is_empty(), "refused on the auth strength bar alone");
    std::mem::forget((parent, child, auth));
}

// @check id=C19 tier=thorough cap=600 expect=fail role=witness
// @fns governance::decision::candidate_matches
// @bound vacuity twin: must come back FAILED
#[kani::proof]
#[kani::unwind(8)]
fn c19_witness_must_fail() {
    let cand = Candidate {
        id: String::new(),
        actions: vec!["read".to_string()],
        scope: AuthorityScope { kinds: list(), ..Default::default() },
        conditions: AuthorityConditions::default(),
        constraints: AuthorityConstraints::default(),
        delegation_allowed: false,
    };
    let res = ResourceContext { kind: lab(), ..Default::default() };
    let auth = AuthContext::principal("p");
    let got = candidate_matches(&cand, Permission::Read, &res, &auth, "11");
    std::mem::forget((cand, res, auth));
    assert!(!got && got, "reachability witness");
}

// EffectiveAuthority::authorize on concrete control-plane rows ---------------------------------------
// Precedence: inactive principal / suspended space -> explicit deny -> allows (owner, matching
// grants) -> default deny; an unlabelled element is judged at the *Space's* default classification.
// The clock is stubbed (the windows here are open-ended), format! is stubbed (ids and reasons).
fn now_stub() -> crate::time::Timestamp {
    "55".to_string()
}
fn authority_with(principal_active: bool, space_suspended: bool, is_owner: bool, deny_all: bool, grant: Option<Candidate>, space_default: &str) -> EffectiveAuthority {
    let mut space = SpaceRow::default();
    space.status = if space_suspended { "suspended".to_string() } else { "active".to_string() };
    space.default_classification = space_default.to_string();
    let mut principal = PrincipalRow::default();
    principal.principal_id = "p".to_string();
    principal.status = if principal_active { status::ACTIVE.to_string() } else { "suspended".to_string() };
    let mut statements = Vec::new();
    if deny_all {
        statements.push(PolicyStatement { effect: "deny".to_string(), ..Default::default() });
    }
    let mut candidates = Vec::new();
    if let Some(c) = grant {
        candidates.push(c);
    }
    EffectiveAuthority { space, principal, groups: Vec::new(), is_owner, policy: None, bindings: Vec::new(), statements, candidates }
}
fn read_grant(kind_bound: Option<String>, ceiling: &str) -> Candidate {
    Candidate {
        id: "g".to_string(),
        actions: vec!["read".to_string()],
        scope: AuthorityScope { kinds: match kind_bound { Some(k) => vec![k], None => vec![] }, ..Default::default() },
        conditions: AuthorityConditions::default(),
        constraints: AuthorityConstraints { max_classification: ceiling.to_string(), ..Default::default() },
        delegation_allowed: false,
    }
}

// @check id=C19 tier=thorough cap=600 mem=24 role=authorize_precedence
// @fns governance::decision::EffectiveAuthority::authorize, governance::decision::candidate_matches, governance::decision::EffectiveAuthority::statement_matches
// @bound principal active or not, space suspended or not, owner or not, an unconditional deny statement present or not, one read grant bounded to a one-byte kind (symbolic) present or not; resource kind a symbolic one-byte label
// @stubs time::now -> "55"; alloc::fmt::format -> String::new()
#[kani::proof]
#[kani::unwind(8)]
#[kani::stub(crate::time::now, now_stub)]
#[kani::stub(alloc::fmt::format, fmt_stub)]
fn c19_authorize_precedence_inactive_deny_allow_default_deny() {
    let (active, suspended, owner, deny_all, has_grant): (bool, bool, bool, bool, bool) = (kani::any(), kani::any(), kani::any(), kani::any(), kani::any());
    let gk = lab();
    let rk = lab();
    let grant_matches = has_grant && gk.as_bytes()[0] == rk.as_bytes()[0];
    let ea = authority_with(active, suspended, owner, deny_all, if has_grant { Some(read_grant(Some(gk), "")) } else { None }, "");
    let res = ResourceContext { kind: rk, ..Default::default() };
    let auth = AuthContext::principal("p");
    let a = ea.authorize(Permission::Read, &res, &auth);
    let expect = active && !suspended && !deny_all && (owner || grant_matches);
    assert!(a.decision.is_permitted() == expect, "permitted iff the principal is active, the space is not suspended, no explicit deny matches and an owner or a matching grant allows it");
    if !expect {
        assert!(a.decision == Decision::Deny, "everything else is a plain deny");
    }
    kani::cover!(expect && !owner, "allowed by a grant");
    kani::cover!(!expect && owner && deny_all && active && !suspended, "an explicit deny beats the owner");
    kani::cover!(!expect && active && !suspended && !deny_all && has_grant, "a grant for another kind does not apply");
    std::mem::forget((a, ea, res, auth));
}

// @check id=C19 tier=thorough cap=600 mem=24 role=authorize_unlabelled_uses_space_default
// @fns governance::decision::EffectiveAuthority::authorize, governance::decision::EffectiveAuthority::default_classification, governance::decision::reaches_classification
// @bound space default classification and the grant's ceiling each a symbolic choice among public / secret (equal length); the resource unlabelled vs labelled with the space default (two runs)
// @stubs time::now -> "55"; alloc::fmt::format -> String::new()
#[kani::proof]
#[kani::unwind(8)]
#[kani::stub(crate::time::now, now_stub)]
#[kani::stub(alloc::fmt::format, fmt_stub)]
fn c19_unlabelled_element_is_judged_at_the_space_default() {
    let pick = |b: bool| if b { "public" } else { "secret" };
    let (sd, ce): (bool, bool) = (kani::any(), kani::any());
    let ea = authority_with(true, false, false, false, Some(read_grant(None, pick(ce))), pick(sd));
    // (auth strength left empty: comparing "standard" would need a larger unwind bound, which also
    // unfolds every other loop and recursion further - 700 s timeout at unwind 12)
    let mut auth = AuthContext::principal("p");
    auth.auth_strength = String::new();
    let unlabelled = ResourceContext { kind: "a".to_string(), ..Default::default() };
    let labelled = ResourceContext { kind: "a".to_string(), classification: pick(sd).to_string(), ..Default::default() };
    let a1 = ea.authorize(Permission::Read, &unlabelled, &auth);
    let a2 = ea.authorize(Permission::Read, &labelled, &auth);
    assert!(a1.decision.is_permitted() == a2.decision.is_permitted(), "an element with no label of its own is treated exactly like one labelled with the Space default");
    // secret default under a public ceiling must be refused
    if !sd && ce {
        assert!(!a1.decision.is_permitted(), "an unlabelled element in a secret-by-default Space is invisible to an authority capped at public");
    }
    kani::cover!(!sd && ce, "secret default, public ceiling");
    kani::cover!(a1.decision.is_permitted(), "readable");
    std::mem::forget((a1, a2, ea, auth, unlabelled, labelled));
}

// policy statements: empty principal / group / action lists mean "everyone / any action", a listed
// list must contain the caller; the resource and condition parts reuse scope_matches / conditions_hold
// @check id=C19 tier=quick cap=900 role=statement_matches
// @fns governance::decision::EffectiveAuthority::statement_matches, governance::decision::scope_matches, governance::decision::conditions_hold
// @bound statement principals / groups lists of 0..1 one-byte labels (symbolic), actions [] / [read] / [update]; caller principal id and one group symbolic labels; resource kind bound 0..1 label vs resource kind label; validity window symbolic
// @stubs alloc::fmt::format -> String::new()
#[kani::proof]
#[kani::unwind(8)]
#[kani::stub(alloc::fmt::format, fmt_stub)]
fn c19_policy_statement_matches_only_whom_and_what_it_names() {
    let l01 = || if kani::any() { vec![] } else { vec![lab()] };
    let act: u8 = kani::any();
    kani::assume(act < 3);
    let st = PolicyStatement {
        effect: "deny".to_string(),
        principals: l01(),
        groups: l01(),
        actions: match act { 0 => vec![], 1 => vec!["read".to_string()], _ => vec!["update".to_string()] },
        resource: AuthorityScope { kinds: l01(), ..Default::default() },
        conditions: AuthorityConditions { valid_until: opt_instant(), ..Default::default() },
        ..Default::default()
    };
    let me = lab();
    let my_group = lab();
    let mut principal = PrincipalRow::default();
    principal.principal_id = me.clone();
    principal.status = status::ACTIVE.to_string();
    let ea = EffectiveAuthority { space: SpaceRow::default(), principal, groups: vec![my_group.clone()], is_owner: false, policy: None, bindings: Vec::new(), statements: Vec::new(), candidates: Vec::new() };
    let res = ResourceContext { kind: lab(), ..Default::default() };
    let mut auth = AuthContext::principal("p");
    auth.auth_strength = String::new();
    let now = instant();
    let got = ea.statement_matches(&st, Permission::Read, &res, &auth, &now);
    let who = (st.principals.is_empty() || st.principals[0].as_bytes()[0] == me.as_bytes()[0])
        && (st.groups.is_empty() || st.groups[0].as_bytes()[0] == my_group.as_bytes()[0]);
    let what = act != 2;
    let whereto = admits(&st.resource.kinds, &res.kind);
    let when = st.conditions.valid_until.is_empty() || now.as_str() < st.conditions.valid_until.as_str();
    assert!(got == (who && what && whereto && when), "a statement applies iff it names the caller (or nobody in particular), the action (or none in particular), a scope containing the resource, and its window is open");
    kani::cover!(got && !st.principals.is_empty() && !st.groups.is_empty(), "matched by principal and group");
    kani::cover!(!got && who && what && whereto, "expired statement does not apply");
    kani::cover!(!got && who && whereto && when, "statement for another action does not apply");
    std::mem::forget((st, ea, res, auth, now, me, my_group));
}

// lists of TWO names: "any of" must not become "all of" (added after seeded change C19-7, where a deny
// naming two groups only reached members of both; with 0..1-element lists the two readings coincide)
// @check id=C19 tier=quick cap=600 role=statement_matches_multi_name_lists
// @fns governance::decision::EffectiveAuthority::statement_matches
// @bound statement groups list of exactly two one-byte labels and principals list of 0 or 2 labels (symbolic); caller principal id symbolic, caller in 1..2 groups (symbolic labels); action list [] / [update, create] / [update, read] against `read`; any resource, no conditions
// @stubs alloc::fmt::format -> String::new()
#[kani::proof]
#[kani::unwind(8)]
#[kani::stub(alloc::fmt::format, fmt_stub)]
fn c19_statement_naming_two_groups_reaches_members_of_either() {
    let g = [lab(), lab()];
    let two_principals: bool = kani::any();
    let p = [lab(), lab()];
    let act: u8 = kani::any();
    kani::assume(act < 3);
    let st = PolicyStatement {
        effect: "deny".to_string(),
        principals: if two_principals { vec![p[0].clone(), p[1].clone()] } else { vec![] },
        groups: vec![g[0].clone(), g[1].clone()],
        actions: match act {
            0 => vec![],
            1 => vec!["update".to_string(), "create".to_string()],
            _ => vec!["update".to_string(), "read".to_string()],
        },
        ..Default::default()
    };
    let me = lab();
    let mine = [lab(), lab()];
    let in_two: bool = kani::any();
    let mut principal = PrincipalRow::default();
    principal.principal_id = me.clone();
    principal.status = status::ACTIVE.to_string();
    let my_groups = if in_two { vec![mine[0].clone(), mine[1].clone()] } else { vec![mine[0].clone()] };
    let ea = EffectiveAuthority { space: SpaceRow::default(), principal, groups: my_groups, is_owner: false, policy: None, bindings: Vec::new(), statements: Vec::new(), candidates: Vec::new() };
    let res = ResourceContext::default();
    let mut auth = AuthContext::principal("p");
    auth.auth_strength = String::new();
    let now = instant();
    let got = ea.statement_matches(&st, Permission::Read, &res, &auth, &now);
    let b = |s: &String| s.as_bytes()[0];
    let member = |x: u8| x == b(&mine[0]) || (in_two && x == b(&mine[1]));
    let group_hit = member(b(&g[0])) || member(b(&g[1]));
    let named = !two_principals || b(&p[0]) == b(&me) || b(&p[1]) == b(&me);
    let acts = act != 1;
    assert!(got == (group_hit && named && acts), "a statement that lists several groups (principals, actions) applies to a member of ANY listed group (to ANY listed principal, for ANY listed action)");
    kani::cover!(got && act == 2, "the permission is the second of two listed actions");
    kani::cover!(got && !(member(b(&g[0])) && member(b(&g[1]))), "member of only one of the two listed groups is reached");
    kani::cover!(got && two_principals && b(&p[0]) != b(&me), "second listed principal is reached");
    kani::cover!(!got && named && acts, "member of neither group is not reached");
    std::mem::forget((st, ea, res, auth, now, me, g, p, mine));
}
