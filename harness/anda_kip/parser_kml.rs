// harness for rs/anda_kip/src/parser/kml.rs (mounted by #[cfg(kani)] hook)
