// @module parser::kml::verif_kani
// Kani harnesses for rs/anda_kip/src/parser/kml.rs — property C16: the guard tables behind "no
// accepted mutation rewrites the payload of an Assertion, Evidence or Proposition" and, for injected
// (pre-parsed) trees, the tree validator.
// Oracles are written from SPECIFICATION.md (13.7 assertion payload, 15.5 evidence payload, 12.5
// proposition tuple; citations appear under both of the field spellings the data model uses).
use super::*;
include!("/verif/harness/common.rs");

fn eq(a: &[u8], b: &[u8]) -> bool {
    if a.len() != b.len() {
        return false;
    }
    let mut i = 0;
    while i < a.len() {
        if a[i] != b[i] {
            return false;
        }
        i += 1;
    }
    true
}
const ASSERTION_PAYLOAD: [&[u8]; 10] = [b"proposition", b"proposition_id", b"asserted_by", b"stance", b"mode", b"confidence", b"asserted_at", b"valid_time", b"evidence", b"evidence_refs"];
const EVIDENCE_PAYLOAD: [&[u8]; 5] = [b"evidence_class", b"payload", b"content_digest", b"media_type", b"observed_at"];
const PROPOSITION_TUPLE: [&[u8]; 3] = [b"subject", b"predicate", b"object"];
fn listed(name: &[u8], list: &[&[u8]]) -> bool {
    let mut i = 0;
    let mut hit = false;
    while i < list.len() {
        if eq(name, list[i]) {
            hit = true;
        }
        i += 1;
    }
    hit
}
fn sym_name<const L: usize>() -> [u8; L] {
    let b: [u8; L] = kani::any();
    let mut i = 0;
    while i < L {
        kani::assume(b[i] >= 0x20 && b[i] < 0x7f);
        i += 1;
    }
    b
}

/// kind: 0 Assertion, 1 Evidence, 2 Proposition, 3 Concept, 4 Activity, 5 None
fn kind_of(k: u8) -> Option<BoundKind> {
    match k {
        0 => Some(BoundKind::Assertion),
        1 => Some(BoundKind::Evidence),
        2 => Some(BoundKind::Proposition),
        3 => Some(BoundKind::Concept),
        4 => Some(BoundKind::Activity),
        _ => None,
    }
}
fn immutable_for(k: u8, name: &[u8]) -> bool {
    match k {
        0 => listed(name, &ASSERTION_PAYLOAD),
        1 => listed(name, &EVIDENCE_PAYLOAD),
        2 => listed(name, &PROPOSITION_TUPLE),
        _ => false,
    }
}

macro_rules! immutable_len {
    ($name:ident, $l:expr) => {
        #[kani::proof]
        #[kani::unwind(17)]
        fn $name() {
            let b = sym_name::<$l>();
            let field = unsafe { std::str::from_utf8_unchecked(&b) };
            let k: u8 = kani::any();
            kani::assume(k < 6);
            let r = guard_immutable_field(field, kind_of(k));
            assert!(r.is_err() == immutable_for(k, &b), "SET FIELDS on a bound Assertion / Evidence / Proposition is refused iff the field is part of its immutable payload; other kinds and unbound targets are not restricted here");
            kani::cover!(r.is_err() && k == 0, "an Assertion payload field of this length refused");
            kani::cover!(r.is_ok() && k == 0, "an ordinary field on an Assertion accepted");
            kani::cover!(r.is_ok() && k == 3, "a Concept field accepted");
        }
    };
}
// @check id=C16 tier=quick cap=600 role=immutable_payload_table harness=c16_immutable_len4,c16_immutable_len6,c16_immutable_len8,c16_immutable_len10,c16_immutable_len11,c16_immutable_len13,c16_immutable_len14
// @fns parser::kml::guard_immutable_field
// @bound every printable-ASCII field name of length 4, 6, 8, 10, 11, 13, 14 (the lengths of the Assertion payload names; symbolic bytes) x target kind symbolic over Assertion / Evidence / Proposition / Concept / Activity / unbound
immutable_len!(c16_immutable_len4, 4);
immutable_len!(c16_immutable_len6, 6);
immutable_len!(c16_immutable_len8, 8);
immutable_len!(c16_immutable_len10, 10);
immutable_len!(c16_immutable_len11, 11);
immutable_len!(c16_immutable_len13, 13);
immutable_len!(c16_immutable_len14, 14);

macro_rules! immutable_len_other {
    ($name:ident, $l:expr, $kind:expr) => {
        #[kani::proof]
        #[kani::unwind(17)]
        fn $name() {
            let b = sym_name::<$l>();
            let field = unsafe { std::str::from_utf8_unchecked(&b) };
            let k: u8 = kani::any();
            kani::assume(k < 6);
            let r = guard_immutable_field(field, kind_of(k));
            assert!(r.is_err() == immutable_for(k, &b), "refused iff part of the bound kind's immutable payload");
            kani::cover!(r.is_err() && k == $kind, "a payload field of this length refused");
            kani::cover!(r.is_ok() && k == $kind, "an ordinary field accepted");
        }
    };
}
// @check id=C16 tier=quick cap=600 role=immutable_payload_table harness=c16_immutable_len7,c16_immutable_len9
// @fns parser::kml::guard_immutable_field
// @bound lengths 7 (payload, subject) and 9 (predicate): Evidence / Proposition names with no Assertion name of that length
immutable_len_other!(c16_immutable_len7, 7, 1);
immutable_len_other!(c16_immutable_len9, 9, 2);

// @check id=C16 tier=quick cap=600 role=structural_mutation_table
// @fns parser::kml::guard_structural_mutation
// @bound target kind symbolic over all BoundKinds and unbound
#[kani::proof]
#[kani::unwind(2)]
fn c16_structural_mutation_only_on_concepts() {
    let k: u8 = kani::any();
    kani::assume(k < 6);
    let r = guard_structural_mutation(kind_of(k));
    assert!(r.is_err() == (k == 0 || k == 1 || k == 2 || k == 4), "SET / UNSET STRUCTURAL is refused on Assertion, Evidence, Proposition and Activity targets");
    kani::cover!(r.is_ok() && k == 3, "concept topology is mutable");
    kani::cover!(r.is_err() && k == 4, "activity refused");
}

// guard_update on an injected UPDATE tree: the kind is resolved from the WHERE block, the field is symbolic
fn update_tree(kind: u8, field: String, structural: bool) -> UpdateStatement {
    let var = String::from("a");
    let clause = match kind {
        0 => WhereClause::Assertion { variable: var.clone(), matcher: ObjectMatcher::new() },
        1 => WhereClause::Evidence { variable: var.clone(), matcher: ObjectMatcher::new() },
        _ => WhereClause::Activity { variable: var.clone(), matcher: ObjectMatcher::new() },
    };
    let action = if structural {
        UpdateAction::UnsetStructural(Vec::new())
    } else {
        UpdateAction::SetFields(vec![(field, MutationValue::Value(KipValue::Null))])
    };
    UpdateStatement {
        target: ElementRef::Handle(var),
        expect_version: None,
        actions: vec![action],
        where_clauses: Some(vec![clause]),
        limit: None,
    }
}
// (bound_kind_of recurses through Not / Optional / Union clauses and Kani has one bound for loops and
// recursion: with the memcmp loops of 6-7 byte names needing unwind >= 8, CBMC unfolds the infeasible
// recursive arms 8 deep and the query did not finish in 400 s. The 4-byte name "mode" keeps the bound
// at 6.)
// (1500 s were not enough either: expected not decided)
// @check id=C16 tier=thorough cap=600 role=guard_update_injected_tree harness=c16_guard_update_assertion_len4
// @fns parser::kml::guard_update, parser::kml::bound_kind_of, parser::kml::guard_immutable_field, parser::kml::guard_structural_mutation
// @bound an injected UPDATE ?a SET FIELDS { <name>: null } WHERE { ?a ASSERTION {} } with every printable name of length 4, or UNSET STRUCTURAL instead (symbolic choice)
#[kani::proof]
#[kani::unwind(6)]
fn c16_guard_update_assertion_len4() {
    let b = sym_name::<4>();
    let structural: bool = kani::any();
    let st = update_tree(0, unsafe { String::from_utf8_unchecked(b.to_vec()) }, structural);
    let r = guard_update(&st);
    assert!(r.is_err() == (structural || immutable_for(0, &b)), "an UPDATE bound to an Assertion may not touch its payload or its citations");
    kani::cover!(r.is_err() && !structural, "payload field refused");
    kani::cover!(r.is_ok(), "ordinary field accepted");
    std::mem::forget((r, st));
}

// @check id=C16 tier=thorough cap=300 expect=fail role=witness
// @fns parser::kml::guard_immutable_field
// @bound vacuity twin: must come back FAILED
#[kani::proof]
#[kani::unwind(17)]
fn c16_witness_must_fail() {
    let b = sym_name::<6>();
    let field = unsafe { std::str::from_utf8_unchecked(&b) };
    let r = guard_immutable_field(field, Some(BoundKind::Assertion));
    assert!(r.is_err() && r.is_ok(), "reachability witness");
}

// bound_kind_of: the first pattern (descending into NOT / OPTIONAL / UNION groups) that binds the
// target variable decides the kind; a group that does not mention it must not end the search
// (seeded change C16-1 returned from the first group).
fn wc(kind: u8, var: u8) -> WhereClause {
    let variable = unsafe { String::from_utf8_unchecked(vec![var]) };
    match kind {
        0 => WhereClause::Assertion { variable, matcher: ObjectMatcher::new() },
        1 => WhereClause::Evidence { variable, matcher: ObjectMatcher::new() },
        _ => WhereClause::Activity { variable, matcher: ObjectMatcher::new() },
    }
}
fn kind_code(k: Option<BoundKind>) -> u8 {
    match k {
        Some(BoundKind::Assertion) => 0,
        Some(BoundKind::Evidence) => 1,
        Some(BoundKind::Activity) => 2,
        Some(_) => 3,
        None => 9,
    }
}
// @check id=C16 tier=quick cap=600 role=bound_kind_resolution
// @fns parser::kml::bound_kind_of
// @bound WHERE { OPTIONAL { ?e EVIDENCE {} } ?t ASSERTION {} } with one-byte variable names e, t and the looked-up name all symbolic in a..c
#[kani::proof]
#[kani::unwind(3)]
fn c16_bound_kind_looks_past_groups_that_do_not_bind_the_target() {
    let (e, t, x): (u8, u8, u8) = (kani::any(), kani::any(), kani::any());
    kani::assume(e >= b'a' && e <= b'c' && t >= b'a' && t <= b'c' && x >= b'a' && x <= b'c');
    let name = unsafe { String::from_utf8_unchecked(vec![x]) };
    let clauses: Vec<WhereClause> = vec![WhereClause::Optional(vec![wc(1, e)]), wc(0, t)];
    let got = kind_code(bound_kind_of(&name, &clauses));
    let want = if x == e { 1 } else if x == t { 0 } else { 9 };
    assert!(got == want, "the kind is that of the first pattern binding the variable, inside or after a group");
    kani::cover!(x == t && x != e, "bound after a group that does not mention it");
    kani::cover!(x == e && x == t, "bound both inside and after the group");
    std::mem::forget((clauses, name));
}

// K1 (injected trees): validate_clause routes the write blocks of a CREATE CONCEPT through the
// protected-name check. One key of 7 symbolic printable bytes in SET FIELDS or SET ATTRIBUTES.
fn expr_ok(_e: &UpdateExpr) -> Result<(), KipError> {
    Ok(())
}
// (did not finish in 600 s: the BTreeSet<&str> built and dropped inside check_assignments; expected not decided)
// @check id=C16 tier=thorough cap=600 role=validate_clause_create_concept
// @fns parser::kml::validate_clause, parser::common::is_protected_field
// @bound injected CREATE CONCEPT whose SET FIELDS or SET ATTRIBUTES block (symbolic choice) carries one key of 7 symbolic printable bytes
// @stubs alloc::fmt::format -> String::new(); validate_update_expr -> Ok (arity of update expressions cannot accept or reject on a field name)
#[kani::proof]
#[kani::unwind(9)]
#[kani::stub(alloc::fmt::format, fmt_stub)]
#[kani::stub(validate_update_expr, expr_ok)]
fn c16_injected_create_concept_cannot_write_engine_owned_fields() {
    let raw = sym_name::<7>();
    let key = unsafe { String::from_utf8_unchecked(raw.to_vec()) };
    let in_fields: bool = kani::any();
    let assigns: Assignments = vec![(key, MutationValue::Value(KipValue::Null))];
    let mut c = ConceptCreate {
        handle: "c".to_string(),
        r#type: None,
        client_key: None,
        name: None,
        set_fields: None,
        set_attributes: None,
        set_facets: Vec::new(),
        set_structural: None,
    };
    if in_fields {
        c.set_fields = Some(assigns)
    } else {
        c.set_attributes = Some(assigns)
    }
    let clause = MutationClause::CreateConcept(c);
    let r = validate_clause(&clause);
    let protected = eq(&raw, b"_system");
    assert!(r.is_ok() == !protected, "an injected CREATE CONCEPT is accepted iff its block does not assign an engine-owned field, whichever block carries it");
    kani::cover!(protected && !in_fields, "_system in SET ATTRIBUTES refused");
    kani::cover!(!protected, "ordinary name accepted");
    std::mem::forget((r, clause));
}

// guard_update, structural actions only (no field name, so a small unwind bound is enough): both SET
// STRUCTURAL and UNSET STRUCTURAL are refused on a target the WHERE block binds as a record kind
// (added after seeded change C16-5, which narrowed the guard to SET STRUCTURAL)
fn structural_update(kind: u8) {
    let unset: bool = kani::any();
    let var = String::from("a");
    let clause = match kind {
        0 => WhereClause::Assertion { variable: var.clone(), matcher: ObjectMatcher::new() },
        1 => WhereClause::Evidence { variable: var.clone(), matcher: ObjectMatcher::new() },
        _ => WhereClause::Activity { variable: var.clone(), matcher: ObjectMatcher::new() },
    };
    let action = if unset { UpdateAction::UnsetStructural(Vec::new()) } else { UpdateAction::SetStructural(Vec::new()) };
    let st = UpdateStatement { target: ElementRef::Handle(var), expect_version: None, actions: vec![action], where_clauses: Some(vec![clause]), limit: None };
    let r = guard_update(&st);
    assert!(r.is_err(), "neither SET nor UNSET STRUCTURAL may reach an Assertion, Evidence or Activity");
    kani::cover!(unset, "UNSET STRUCTURAL");
    kani::cover!(!unset, "SET STRUCTURAL");
    std::mem::forget((r, st));
}
// (guard_update as a whole did not finish in 400 s even without a field name: its second half walks
// every action's values for foreign variable reads. Thorough tier, expected not decided.)
// @check id=C16 tier=thorough cap=600 role=guard_update_structural harness=c16_structural_update_on_assertion
// @fns parser::kml::guard_update, parser::kml::bound_kind_of, parser::kml::guard_structural_mutation
// @bound an injected UPDATE ?a SET STRUCTURAL {} / UNSET STRUCTURAL {} (symbolic choice) WHERE { ?a ASSERTION {} }
#[kani::proof]
#[kani::unwind(3)]
fn c16_structural_update_on_assertion() {
    structural_update(0);
}

// ---- guard_update, first half (source slice regenerated by the driver on every run) -------------
// guard_update as a whole does not finish under CBMC; the loop that sends every action to the guards is
// extracted verbatim (slices/guard_update_actions.rs). Every `?` exit of that loop is an Err of
// guard_update itself, so "the loop refuses" implies "guard_update refuses". Added after seeded change
// C16-5 (UNSET STRUCTURAL no longer guarded).
include!("/verif/slices/guard_update_actions.rs");

fn kind_from(k: u8) -> Option<BoundKind> {
    match k {
        0 => None,
        1 => Some(BoundKind::Assertion),
        2 => Some(BoundKind::Evidence),
        3 => Some(BoundKind::Proposition),
        4 => Some(BoundKind::Concept),
        _ => Some(BoundKind::Activity),
    }
}

fn set_fields(name: &str) -> UpdateAction {
    UpdateAction::SetFields(vec![(name.to_string(), MutationValue::Value(KipValue::Null))])
}

fn update_with(actions: Vec<UpdateAction>) -> UpdateStatement {
    UpdateStatement { target: ElementRef::Handle(String::from("a")), expect_version: None, actions, where_clauses: None, limit: None }
}

// structural writes: refused exactly for the kinds that have no mutable structure, wherever the action
// stands in the statement and whether it is SET or UNSET
macro_rules! slice_structural {
    ($name:ident, $actions:expr) => {
        #[kani::proof]
        #[kani::unwind(4)]
        fn $name() {
            let k: u8 = kani::any();
            kani::assume(k <= 5);
            let kind = kind_from(k);
            let st = update_with($actions);
            let r = slice_guard_update_actions(&st, kind);
            let record_kind = matches!(k, 1 | 2 | 3 | 5);
            assert!(r.is_err() == record_kind, "a structural SET or UNSET is refused iff the target is bound as an Assertion, Evidence, Proposition or Activity");
            assert!(r.is_err() == guard_structural_mutation(kind).is_err(), "and that is exactly guard_structural_mutation's verdict");
            kani::cover!(k == 1, "assertion target");
            kani::cover!(k == 4, "concept target accepted");
            std::mem::forget((r, st));
        }
    };
}
// @check id=C16 tier=quick cap=300 needs=slice_guard_update role=guard_update_structural_slice harness=c16_slice_set_structural,c16_slice_unset_structural,c16_slice_unset_structural_after_attributes,c16_slice_unset_structural_after_set_structural
// @fns parser::kml::guard_update (first loop, sliced), parser::kml::guard_structural_mutation
// @bound every bound kind (None + 5) x four concrete action lists: [SET STRUCTURAL], [UNSET STRUCTURAL], [UNSET ATTRIBUTES, UNSET STRUCTURAL], [SET ATTRIBUTES, SET STRUCTURAL, UNSET STRUCTURAL]; edge lists empty (the guards do not read them)
// @assume the sliced loop is guard_update's first statement after `kind` (the slicer refuses the slice if a return or Ok( precedes it)
slice_structural!(c16_slice_set_structural, vec![UpdateAction::SetStructural(Vec::new())]);
slice_structural!(c16_slice_unset_structural, vec![UpdateAction::UnsetStructural(Vec::new())]);
slice_structural!(c16_slice_unset_structural_after_attributes, vec![UpdateAction::UnsetAttributes(Vec::new()), UpdateAction::UnsetStructural(Vec::new())]);
slice_structural!(c16_slice_unset_structural_after_set_structural, vec![UpdateAction::SetAttributes(Vec::new()), UpdateAction::SetStructural(Vec::new()), UpdateAction::UnsetStructural(Vec::new())]);

// field writes: every SET FIELDS assignment reaches guard_immutable_field, not only the first one of
// the first action
macro_rules! slice_fields {
    ($name:ident, $k:expr, $table:ident, $actions:expr) => {
        #[kani::proof]
        #[kani::unwind(16)]
        fn $name() {
            let bad: &str = $table[$table.len() - 1];
            let build = $actions;
            let st = update_with(build(bad));
            let r = slice_guard_update_actions(&st, kind_from($k));
            assert!(r.is_err(), "an immutable payload field of a kind is refused in an UPDATE bound to that kind, at any position in the statement");
            let other = slice_guard_update_actions(&st, kind_from(4));
            assert!(other.is_ok(), "the same statement on a Concept target is not refused by this loop");
            std::mem::forget((r, other, st));
        }
    };
}
// @check id=C16 tier=quick cap=600 needs=slice_guard_update role=guard_update_fields_slice harness=c16_slice_evidence_field_second_assignment,c16_slice_proposition_field_alone
// @fns parser::kml::guard_update (first loop, sliced), parser::kml::guard_immutable_field
// @bound the last name of ASSERTION_IMMUTABLE / EVIDENCE_IMMUTABLE / PROPOSITION_IMMUTABLE (every name of each table is decided on guard_immutable_field itself above; a symbolic table index here took 230-300+ s) on a target bound to that kind (refused) and to a Concept (accepted) - all concrete, the solver only folds constants here: a wiring check; the immutable name is the only assignment, the second assignment of one SET FIELDS, or in the second SET FIELDS action after a harmless one
slice_fields!(c16_slice_evidence_field_second_assignment, 2, EVIDENCE_IMMUTABLE, |bad: &str| vec![UpdateAction::SetFields(vec![
    ("x_note".to_string(), MutationValue::Value(KipValue::Null)),
    (bad.to_string(), MutationValue::Value(KipValue::Null)),
])]);
slice_fields!(c16_slice_proposition_field_alone, 3, PROPOSITION_IMMUTABLE, |bad: &str| vec![set_fields(bad)]);
// (177 s although fully concrete: String/Vec drop glue at unwind 16 - thorough tier)
// @check id=C16 tier=thorough cap=600 needs=slice_guard_update role=guard_update_fields_slice_second_action harness=c16_slice_assertion_field_second_action
// @fns parser::kml::guard_update (first loop, sliced), parser::kml::guard_immutable_field
// @bound the last name of ASSERTION_IMMUTABLE / EVIDENCE_IMMUTABLE / PROPOSITION_IMMUTABLE (every name of each table is decided on guard_immutable_field itself above; a symbolic table index here took 230-300+ s) on a target bound to that kind (refused) and to a Concept (accepted) - all concrete, the solver only folds constants here: a wiring check; the immutable name is the only assignment, the second assignment of one SET FIELDS, or in the second SET FIELDS action after a harmless one
slice_fields!(c16_slice_assertion_field_second_action, 1, ASSERTION_IMMUTABLE, |bad: &str| vec![set_fields("x_note"), set_fields(bad)]);

// ---- routing: every write block of every clause family reaches the engine-owned-field guard ----------
// validate_clause is the tree validator an injected (pre-parsed) command goes through. With a symbolic
// key it does not finish (BTreeSet of seen keys); with a CONCRETE engine-owned key the guard returns
// before the set is touched, so each write position can be decided on its own: a wiring table. Which
// names are engine-owned is decided for every string by the is_protected_field harnesses above. Added
// after seeded change C16-9 (TRANSITION ACTIVITY's SET FIELDS lost its name checks).
fn asg(key: &str) -> Assignments {
    vec![(key.to_string(), MutationValue::Value(KipValue::Null))]
}
fn facet_set(key: &str) -> Vec<FacetAssignment> {
    vec![FacetAssignment { facet: SymbolRef::Name(String::from("f")), values: asg(key) }]
}
#[allow(dead_code)]
fn facet_unset(key: &str) -> Vec<FacetUnset> {
    vec![FacetUnset { facet: SymbolRef::Name(String::from("f")), fields: vec![key.to_string()] }]
}
fn cc() -> ConceptCreate {
    ConceptCreate { handle: "c".to_string(), r#type: None, client_key: None, name: None, set_fields: None, set_attributes: None, set_facets: Vec::new(), set_structural: None }
}
#[allow(dead_code)]
fn cu() -> ConceptUpsert {
    ConceptUpsert {
        handle: "c".to_string(),
        r#match: None,
        expect_version: None,
        set_fields: None,
        set_attributes: None,
        set_facets: Vec::new(),
        unset_attributes: None,
        unset_facets: Vec::new(),
        set_structural: None,
        unset_structural: None,
    }
}
fn rc() -> RecordCreate {
    RecordCreate { handle: "r".to_string(), client_key: None, set_fields: None, set_facets: Vec::new(), set_structural: None }
}
fn upd(action: UpdateAction) -> MutationClause {
    MutationClause::Update(UpdateStatement { target: ElementRef::Handle(String::from("a")), expect_version: None, actions: vec![action], where_clauses: None, limit: None })
}
macro_rules! routed {
    ($name:ident, $key:expr, $build:expr) => {
        #[kani::proof]
        #[kani::unwind(12)]
        #[kani::stub(alloc::fmt::format, fmt_stub)]
        fn $name() {
            let build = $build;
            let clause: MutationClause = build($key);
            let r = validate_clause(&clause);
            assert!(r.is_err(), "an injected clause that writes or unsets an engine-owned field in this block is refused by the tree validator");
            std::mem::forget((r, clause));
        }
    };
}
// @check id=C16 tier=quick cap=300 role=validate_clause_routing harness=c16_routed_create_concept_fields,c16_routed_create_concept_attributes,c16_routed_create_concept_facet,c16_routed_create_evidence_fields,c16_routed_create_assertion_fields,c16_routed_create_activity_fields,c16_routed_create_evidence_facet,c16_routed_update_facet,c16_routed_update_unset_facet,c16_routed_transition_fields,c16_routed_set_retention
// @fns parser::kml::validate_clause, parser::common::is_protected_field
// @bound 11 write positions (CREATE CONCEPT fields / attributes / facet; CREATE EVIDENCE / ASSERTION / ACTIVITY fields, one facet; UPDATE set facet / unset facet; TRANSITION ACTIVITY fields; SET RETENTION). The other 8 positions (all five of UPSERT CONCEPT, UPDATE set fields / set attributes / unset attributes) did not finish in 900 s although equally concrete and are NOT covered, each carrying one concrete engine-owned name (the four names rotate over the positions): all concrete - a wiring table
// @stubs alloc::fmt::format -> String::new()
routed!(c16_routed_create_concept_fields, "_system", |k: &str| MutationClause::CreateConcept(ConceptCreate { set_fields: Some(asg(k)), ..cc() }));
routed!(c16_routed_create_concept_attributes, "governance", |k: &str| MutationClause::CreateConcept(ConceptCreate { set_attributes: Some(asg(k)), ..cc() }));
routed!(c16_routed_create_concept_facet, "space_id", |k: &str| MutationClause::CreateConcept(ConceptCreate { set_facets: facet_set(k), ..cc() }));
routed!(c16_routed_create_evidence_fields, "_system", |k: &str| MutationClause::CreateEvidence(RecordCreate { set_fields: Some(asg(k)), ..rc() }));
routed!(c16_routed_create_assertion_fields, "governance", |k: &str| MutationClause::CreateAssertion(RecordCreate { set_fields: Some(asg(k)), ..rc() }));
routed!(c16_routed_create_activity_fields, "space_id", |k: &str| MutationClause::CreateActivity(RecordCreate { set_fields: Some(asg(k)), ..rc() }));
routed!(c16_routed_create_evidence_facet, "space_seq", |k: &str| MutationClause::CreateEvidence(RecordCreate { set_facets: facet_set(k), ..rc() }));
routed!(c16_routed_update_facet, "space_id", |k: &str| upd(UpdateAction::SetFacet(FacetAssignment { facet: SymbolRef::Name(String::from("f")), values: asg(k) })));
routed!(c16_routed_update_unset_facet, "_system", |k: &str| upd(UpdateAction::UnsetFacet(FacetUnset { facet: SymbolRef::Name(String::from("f")), fields: vec![k.to_string()] })));
routed!(c16_routed_transition_fields, "governance", |k: &str| MutationClause::TransitionActivity(TransitionActivity { target: ElementRef::Handle(String::from("a")), to: Scalar::Literal(KipValue::Null), set_fields: Some(asg(k)), set_structural: None, expect_state: None }));
routed!(c16_routed_set_retention, "space_id", |k: &str| MutationClause::SetRetention(SetRetention { target: ElementRef::Handle(String::from("a")), values: asg(k), where_clauses: None, limit: None, expect_version: None }));

// ---- a virtual BELIEF projection is never a selection pattern of a mutation or an export --------------
// validate_exact_patterns on concrete one-clause / one-wrapper shapes (recursion over heap-held
// wrapper nodes does not finish at larger shapes). Added after seeded change C16-7 (BELIEF SLOT dropped
// from the refusing arm).
fn w_belief() -> WhereClause {
    WhereClause::Belief { variable: String::from("b"), target: crate::ast::BeliefTarget::Proposition(String::from("p")) }
}
fn w_slot() -> WhereClause {
    WhereClause::BeliefSlot { variable: String::from("s"), subject: Term::Variable(String::from("x")), predicate: PredAtom::Literal(String::from("p")) }
}
fn w_plain() -> WhereClause {
    WhereClause::Concept { variable: String::from("c"), matcher: ObjectMatcher::new() }
}
macro_rules! exact_shape {
    ($name:ident, $clauses:expr, $refused:expr) => {
        #[kani::proof]
        #[kani::unwind(4)]
        #[kani::stub(alloc::fmt::format, fmt_stub)]
        fn $name() {
            let clauses = $clauses;
            let r = validate_exact_patterns(&clauses);
            assert!(r.is_err() == $refused, "a selection block is refused iff it contains a BELIEF or BELIEF SLOT projection, at top level or inside NOT / OPTIONAL / UNION");
            std::mem::forget((r, clauses));
        }
    };
}
// @check id=C16 tier=quick cap=300 role=belief_never_a_selection_pattern harness=c16_exact_belief,c16_exact_belief_slot,c16_exact_belief_slot_after_plain,c16_exact_belief_slot_in_not,c16_exact_belief_slot_in_optional,c16_exact_belief_in_union,c16_exact_plain_only
// @fns parser::kml::validate_exact_patterns
// @bound concrete selection blocks: [BELIEF], [BELIEF SLOT], [plain, BELIEF SLOT], NOT / OPTIONAL holding a BELIEF SLOT, UNION holding a BELIEF (refused); [plain] (accepted; OPTIONAL holding a plain clause - the accepting path through the recursion - did not finish in 300 s)
// @stubs alloc::fmt::format -> String::new()
exact_shape!(c16_exact_belief, [w_belief()], true);
exact_shape!(c16_exact_belief_slot, [w_slot()], true);
exact_shape!(c16_exact_belief_slot_after_plain, [w_plain(), w_slot()], true);
exact_shape!(c16_exact_belief_slot_in_not, [WhereClause::Not(vec![w_slot()])], true);
exact_shape!(c16_exact_belief_slot_in_optional, [WhereClause::Optional(vec![w_slot()])], true);
exact_shape!(c16_exact_belief_in_union, [WhereClause::Union(vec![w_belief()])], true);
exact_shape!(c16_exact_plain_only, [w_plain()], false);
