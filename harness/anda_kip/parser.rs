// @module parser::verif_kani
// Kani harnesses for rs/anda_kip/src/parser.rs — property C15, the pre-parse budget guard
// validate_parser_budget (length limit, bracket depth, strings, // comments): it must stay in lexical
// lock-step with the real tokenizer for every arrangement of quotes, backslashes, slashes and newlines
// around a bracket run, or the depth guard is defeated (the regression its own comment describes).
// The guard only returns Ok/Err, so its lexer is observable only at the depth limit: every lock-step
// harness carries a run of 64 openers.
use super::*;
include!("/verif/harness/common.rs");

// '\r' is in the alphabet because only LF ends a `//` comment (seeded change C15-1 ended it at CR)
const ALPHABET: [u8; 10] = [b'"', b'/', b'\\', b'\n', b'\r', b'a', b'(', b'[', b')', b']'];
fn sym() -> u8 {
    let i: u8 = kani::any();
    kani::assume(i < 10);
    ALPHABET[i as usize]
}

/// Reference lexer written from KIPSyntax.md: strings with backslash escapes, `//` to end of line,
/// a closer pops only its own opener. Returns (in_string, in_comment, depth) after the segment,
/// starting in code mode with `depth0` open '(' brackets.
fn reference<const P: usize>(seg: &[u8; P], depth0: usize) -> (bool, bool, usize, [u8; P], usize) {
    let (mut in_str, mut esc, mut in_c, mut prev_slash) = (false, false, false, false);
    // openers pushed by the segment itself (the run below it is all '(')
    let mut own = [0u8; P];
    let mut n_own = 0usize;
    let mut below = depth0;
    let mut j = 0;
    while j < P {
        let c = seg[j];
        j += 1;
        if in_c {
            if c == b'\n' {
                in_c = false;
            }
            continue;
        }
        if in_str {
            prev_slash = false;
            if esc {
                esc = false;
                continue;
            }
            if c == b'\\' {
                esc = true;
            } else if c == b'"' {
                in_str = false;
            }
            continue;
        }
        if c == b'/' {
            if prev_slash {
                in_c = true;
                prev_slash = false;
            } else {
                prev_slash = true;
            }
            continue;
        }
        prev_slash = false;
        if c == b'"' {
            in_str = true;
        } else if c == b'(' || c == b'[' {
            own[n_own] = c;
            n_own += 1;
        } else if c == b')' {
            if n_own > 0 {
                if own[n_own - 1] == b'(' {
                    n_own -= 1;
                }
            } else if below > 0 {
                below -= 1;
            }
        } else if c == b']' {
            if n_own > 0 && own[n_own - 1] == b'[' {
                n_own -= 1;
            }
        }
    }
    (in_str, in_c, below + n_own, own, n_own)
}

/// 64 concrete '(' , then the symbolic segment, then one more '(' : Err iff after the segment the
/// lexer is in code mode and still 64 deep. (The lexer state does not depend on the depth, so placing
/// the segment after the run is as general as before it and keeps the first 64 iterations concrete;
/// the reverse placement did not finish in 900 s.) Openers are not in this segment's alphabet: one
/// more opener at depth 64 would return Err from inside the segment.
fn lockstep_run_then_segment<const P: usize, const N: usize>() {
    let mut bytes = [b'('; N];
    let mut seg = [0u8; P];
    let mut i = 0;
    while i < P {
        let c = sym();
        kani::assume(c != b'(' && c != b'[');
        seg[i] = c;
        bytes[64 + i] = c;
        i += 1;
    }
    let s = unsafe { std::str::from_utf8_unchecked(&bytes) };
    let r = validate_parser_budget(s);
    let (in_str, in_c, depth, _, _) = reference::<P>(&seg, 64);
    let code = !in_str && !in_c;
    assert!(r.is_err() == (code && depth == 64), "the 65th opener is refused exactly when the real lexical state is code and no closer of its own kind intervened");
    kani::cover!(r.is_err(), "refused");
    kani::cover!(r.is_ok() && in_str, "the opener sits inside a string");
    kani::cover!(r.is_ok() && code && depth < 64, "a ')' closed one level first");
    std::mem::forget(r);
}

// @check id=C15 tier=quick cap=900 mem=24 solo=1 role=lockstep_run_then_segment
// @fns parser::validate_parser_budget
// @bound 64 concrete '(' + every segment of 2 symbols over {" / \ LF CR a ) ]} + one more '(' (67 characters)
// @stubs alloc::fmt::format -> String::new() (error messages only)
// @assume ASCII input (multi-byte characters are neither brackets nor quotes)
#[kani::proof]
#[kani::unwind(70)]
#[kani::stub(alloc::fmt::format, fmt_stub)]
fn c15_budget_lockstep_run_then_segment2() {
    lockstep_run_then_segment::<2, 67>();
}

// @check id=C15 tier=thorough cap=1500 mem=28 solo=1 fallback=c15_native_witness_search_segment3 role=lockstep_run_then_segment
// @fns parser::validate_parser_budget
// @bound as above with every segment of 3 symbols (68 characters): 473 s / 19 GB measured in the design probe
// @stubs alloc::fmt::format -> String::new() (error messages only)
#[kani::proof]
#[kani::unwind(71)]
#[kani::stub(alloc::fmt::format, fmt_stub)]
fn c15_budget_lockstep_run_then_segment3() {
    lockstep_run_then_segment::<3, 68>();
}

// never over-rejects at the limit: exactly 64 openers are allowed, whatever follows them closes or
// is not a bracket. (A fully symbolic short input over an alphabet with openers ran out of 16 GB even
// at 4 characters: every symbolic push forks the Vec growth path. The opener run is concrete here.)
// @check id=C15 tier=quick cap=900 mem=24 solo=1 role=never_over_rejects_at_limit
// @fns parser::validate_parser_budget
// @bound 64 concrete '(' followed by every segment of 2 symbols over {" / \ LF CR a ) ]} (no further opener): never refused
// @stubs alloc::fmt::format -> String::new() (error messages only)
#[kani::proof]
#[kani::unwind(69)]
#[kani::stub(alloc::fmt::format, fmt_stub)]
fn c15_budget_allows_exactly_the_limit() {
    let mut bytes = [b'('; 66];
    let (c0, c1) = (sym(), sym());
    kani::assume(c0 != b'(' && c0 != b'[' && c1 != b'(' && c1 != b'[');
    bytes[64] = c0;
    bytes[65] = c1;
    let s = unsafe { std::str::from_utf8_unchecked(&bytes) };
    let r = validate_parser_budget(s);
    assert!(r.is_ok(), "nesting of exactly MAX_KIP_NESTING_DEPTH is within the budget");
    kani::cover!(c0 == b')' && c1 == b')', "two closers");
    kani::cover!(c0 == b'"', "string opened at the limit");
    std::mem::forget(r);
}

// the length limit: one comparison, reached with an over-long input of zero bytes (no loop entered)
// @check id=C15 tier=quick cap=600 role=length_limit
// @fns parser::validate_parser_budget
// @bound inputs of length MAX_KIP_INPUT_LEN + 1 (refused before scanning) — concrete
// @stubs alloc::fmt::format -> String::new() (error messages only)
#[kani::proof]
#[kani::unwind(3)]
#[kani::stub(alloc::fmt::format, fmt_stub)]
fn c15_budget_refuses_over_long_input_before_scanning() {
    static BIG: [u8; MAX_KIP_INPUT_LEN + 1] = [0u8; MAX_KIP_INPUT_LEN + 1];
    let s = unsafe { std::str::from_utf8_unchecked(&BIG) };
    let r = validate_parser_budget(s);
    assert!(r.is_err(), "an input longer than MAX_KIP_INPUT_LEN is refused");
    kani::cover!(s.len() == MAX_KIP_INPUT_LEN + 1, "one byte over the limit");
    kani::cover!(r.is_err(), "refused");
    std::mem::forget(r);
}

// Native witness search (replay fallback, see ./check replay_cex): when the solver reports the
// 3-symbol lock-step assertion FAILED but trace generation does not fit in memory, this plain test
// enumerates the same 8^3 segments against the real guard and the same reference lexer and panics
// with the first concrete disagreement. It is never used to *decide* anything.
#[cfg(test)]
#[test]
fn c15_native_witness_search_segment3() {
    let alphabet: [u8; 8] = [b'"', b'/', b'\\', b'\n', b'\r', b'a', b')', b']'];
    for a in alphabet {
        for b in alphabet {
            for c in alphabet {
                let seg = [a, b, c];
                let mut bytes = vec![b'('; 64];
                bytes.extend_from_slice(&seg);
                bytes.push(b'(');
                let s = std::str::from_utf8(&bytes).unwrap();
                let r = validate_parser_budget(s);
                let (in_str, in_c, depth, _, _) = reference::<3>(&seg, 64);
                let code = !in_str && !in_c;
                assert!(r.is_err() == (code && depth == 64), "lock-step broken for segment {:?}: guard says {}, reference lexer says in_string={in_str} in_comment={in_c} depth={depth}", String::from_utf8_lossy(&seg), if r.is_err() { "refuse" } else { "accept" });
            }
        }
    }
}
