// harness for rs/anda_kip/src/parser.rs (mounted by #[cfg(kani)] hook)
