// harness for rs/anda_kip/src/parser/common.rs (mounted by #[cfg(kani)] hook)
