// @module parser::common::verif_kani
// Kani harnesses for rs/anda_kip/src/parser/common.rs — property C16: is_protected_field, the
// engine-owned name table every assignment / unset block is checked against.
// Oracle: the engine-owned names of the property statement and SPECIFICATION.md 6.3 (system,
// governance, space identity and sequence), compared bytewise — not PROTECTED_FIELDS itself.
use super::*;

fn eq(a: &[u8], b: &[u8]) -> bool {
    if a.len() != b.len() {
        return false;
    }
    let mut i = 0;
    while i < a.len() {
        if a[i] != b[i] {
            return false;
        }
        i += 1;
    }
    true
}
fn engine_owned(name: &[u8]) -> bool {
    eq(name, b"_system") || eq(name, b"governance") || eq(name, b"space_id") || eq(name, b"space_seq")
}

macro_rules! protected_len {
    ($name:ident, $l:expr) => {
        #[kani::proof]
        #[kani::unwind(13)]
        fn $name() {
            let b: [u8; $l] = kani::any();
            let mut i = 0;
            while i < $l {
                kani::assume(b[i] >= 0x20 && b[i] < 0x7f);
                i += 1;
            }
            let s = unsafe { std::str::from_utf8_unchecked(&b) };
            let got = is_protected_field(s);
            assert!(got == engine_owned(&b), "a name is refused as engine-owned iff it is exactly one of _system / governance / space_id / space_seq (no case folding, no prefix match)");
            kani::cover!(got || $l == 6 || $l == 11, "a protected name of this length");
            kani::cover!(!got, "an ordinary name of this length");
        }
    };
}
// @check id=C16 tier=quick cap=600 role=protected_field_table harness=c16_protected_len6,c16_protected_len7,c16_protected_len8,c16_protected_len9,c16_protected_len10,c16_protected_len11
// @fns parser::common::is_protected_field
// @bound every printable-ASCII name of length 6, 7, 8, 9, 10 and 11 (symbolic bytes): all case / punctuation variants of the engine-owned names are inside the bound
protected_len!(c16_protected_len6, 6);
protected_len!(c16_protected_len7, 7);
protected_len!(c16_protected_len8, 8);
protected_len!(c16_protected_len9, 9);
protected_len!(c16_protected_len10, 10);
protected_len!(c16_protected_len11, 11);

// Number negation (source slice): "for every input string the parsers terminate with a result or an
// error - never a panic". negated_number folds a detached unary minus into the literal; its arithmetic
// core (the block after `parse_number(input)?`) is extracted from the current common.rs on every run.
// Kani's overflow checks are on, so `-i64::MIN`-style negations are reported (seeded change C15-4).
include!("/verif/slices/negate_number.rs");

fn as_i128(n: &Number) -> Option<i128> {
    if let Some(i) = n.as_i64() {
        Some(i as i128)
    } else {
        n.as_u64().map(|u| u as i128)
    }
}

// @check id=C15 tier=quick cap=600 needs=slice_negate role=number_negation_total_and_exact
// @fns parser::common::negated_number (arithmetic block, sliced)
// @bound the parsed literal is any i64, any u64 or any finite f64 (symbolic choice, full width)
// @assume the sliced block is the one negated_number executes after parse_number (extracted textually, anchored on `let negated`)
#[kani::proof]
fn c15_negating_a_literal_never_panics_and_is_exact() {
    let which: u8 = kani::any();
    kani::assume(which < 3);
    let f: f64 = kani::any();
    kani::assume(f.is_finite());
    let number = match which {
        0 => Number::from(kani::any::<i64>()),
        1 => Number::from(kani::any::<u64>()),
        _ => Number::from_f64(f).unwrap(),
    };
    let before = as_i128(&number);
    let r = slice_negate(number, "");
    match (&r, before) {
        (Ok(n), Some(x)) => assert!(as_i128(n) == Some(-x), "an integer literal negates to exactly its negative"),
        (Err(()), Some(x)) => assert!(x > (1i128 << 63), "refused only when the negative does not fit an integer (above 2^63)"),
        (Ok(n), None) => assert!(n.as_f64() == Some(-f), "a float literal negates to its negative"),
        (Err(()), None) => assert!(false, "a finite float always negates"),
    }
    kani::cover!(before == Some(i64::MIN as i128), "i64::MIN negates to 2^63");
    kani::cover!(before == Some(1i128 << 63) && r.is_ok(), "2^63 negates to i64::MIN");
    kani::cover!(r.is_err(), "2^63 + 1 and above refused");
    kani::cover!(which == 2 && f < 0.0, "negative float");
}
