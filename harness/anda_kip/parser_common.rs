// @module parser::common::verif_kani
// Kani harnesses for rs/anda_kip/src/parser/common.rs — property C16: is_protected_field, the
// engine-owned name table every assignment / unset block is checked against.
// Oracle: the engine-owned names of the property statement and SPECIFICATION.md 6.3 (system,
// governance, space identity and sequence), compared bytewise — not PROTECTED_FIELDS itself.
use super::*;

fn eq(a: &[u8], b: &[u8]) -> bool {
    if a.len() != b.len() {
        return false;
    }
    let mut i = 0;
    while i < a.len() {
        if a[i] != b[i] {
            return false;
        }
        i += 1;
    }
    true
}
fn engine_owned(name: &[u8]) -> bool {
    eq(name, b"_system") || eq(name, b"governance") || eq(name, b"space_id") || eq(name, b"space_seq")
}

macro_rules! protected_len {
    ($name:ident, $l:expr) => {
        #[kani::proof]
        #[kani::unwind(13)]
        fn $name() {
            let b: [u8; $l] = kani::any();
            let mut i = 0;
            while i < $l {
                kani::assume(b[i] >= 0x20 && b[i] < 0x7f);
                i += 1;
            }
            let s = unsafe { std::str::from_utf8_unchecked(&b) };
            let got = is_protected_field(s);
            assert!(got == engine_owned(&b), "a name is refused as engine-owned iff it is exactly one of _system / governance / space_id / space_seq (no case folding, no prefix match)");
            kani::cover!(got || $l == 6 || $l == 11, "a protected name of this length");
            kani::cover!(!got, "an ordinary name of this length");
        }
    };
}
// @check id=C16 tier=quick cap=600 role=protected_field_table harness=c16_protected_len6,c16_protected_len7,c16_protected_len8,c16_protected_len9,c16_protected_len10,c16_protected_len11
// @fns parser::common::is_protected_field
// @bound every printable-ASCII name of length 6, 7, 8, 9, 10 and 11 (symbolic bytes): all case / punctuation variants of the engine-owned names are inside the bound
protected_len!(c16_protected_len6, 6);
protected_len!(c16_protected_len7, 7);
protected_len!(c16_protected_len8, 8);
protected_len!(c16_protected_len9, 9);
protected_len!(c16_protected_len10, 10);
protected_len!(c16_protected_len11, 11);
