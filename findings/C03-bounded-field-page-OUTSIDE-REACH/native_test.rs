use anda_db::{
    collection::{Collection, CollectionConfig},
    database::{AndaDB, DBConfig},
    error::DBError,
    query::{Filter, RangeQuery},
    schema::{AndaDBSchema, Fv},
    storage::StorageConfig,
};
use object_store::memory::InMemory;
use serde::{Deserialize, Serialize};
use std::sync::Arc;

#[derive(Debug, Clone, Serialize, Deserialize, PartialEq, AndaDBSchema)]
struct Person {
    _id: u64,
    age: u64,
}

#[tokio::test]
async fn bounded_field_page_is_a_prefix_of_the_ascending_id_result() -> Result<(), DBError> {
    let db = AndaDB::create(
        Arc::new(InMemory::new()),
        DBConfig { name: "obs".to_string(), description: "obs".to_string(), storage: StorageConfig { compress_level: 0, ..Default::default() }, lock: None },
    )
    .await?;
    let c: Arc<Collection> = db
        .create_collection(Person::schema()?, CollectionConfig { name: "p".to_string(), description: "p".to_string() }, async |c| {
            c.create_btree_index(&["age"]).await?;
            Ok(())
        })
        .await?;
    for age in [30u64, 10, 20] {
        c.add_from(&Person { _id: 0, age }).await?;
    }
    let f = Filter::Field(("age".to_string(), RangeQuery::Ge(Fv::U64(0))));
    let all = c.query_all_ids(f.clone()).await?;
    println!("all = {all:?}");
    let first2 = c.query_ids(f.clone(), Some(2)).await?;
    let last2 = c.query_last_ids(f.clone(), Some(2)).await?;
    println!("query_ids Some(2) = {first2:?}; query_last_ids Some(2) = {last2:?}");
    assert_eq!(all, vec![1, 2, 3]);
    assert_eq!(first2, vec![1, 2], "first `limit` of the ascending result");
    assert_eq!(last2, vec![2, 3], "last `limit` of the ascending result");
    db.close().await?;
    Ok(())
}
