/// Test generated for harness `projection::verif_kani::c20_belief_status_independent_of_recording_order` 
///
/// Check for `assertion`: ""the projected belief does not depend on the order the assertions were recorded in""
///
/// # Warning
///
/// Concrete playback tests combined with stubs or contracts is highly
/// experimental, and subject to change.
///
/// The original harness has stubs which are not applied to this test.
/// This may cause a mismatch of non-deterministic values if the stub
/// creates any non-deterministic value.
/// The execution path may also differ, which can be used to refine the stub
/// logic.

#[test]
fn kani_concrete_playback_c20_belief_status_independent_of_recording_order_9729418437206564814() {
    let concrete_vals: Vec<Vec<u8>> = vec![
        // 0.398437
        vec![255, 255, 255, 255, 255, 127, 217, 63],
        // 0.002656
        vec![128, 191, 250, 7, 244, 193, 101, 63],
        // 0.499971
        vec![173, 58, 38, 222, 132, 255, 223, 63],
    ];
    kani::concrete_playback_run(concrete_vals, c20_belief_status_independent_of_recording_order);
}

/// Test generated for harness `projection::verif_kani::c20_belief_status_independent_of_recording_order` 
///
/// Check for `cover`: "accepted reachable"
///
/// # Warning
///
/// Concrete playback tests combined with stubs or contracts is highly
/// experimental, and subject to change.
///
/// The original harness has stubs which are not applied to this test.
/// This may cause a mismatch of non-deterministic values if the stub
/// creates any non-deterministic value.
/// The execution path may also differ, which can be used to refine the stub
/// logic.

#[test]
fn kani_concrete_playback_c20_belief_status_independent_of_recording_order_2134668686547809366() {
    let concrete_vals: Vec<Vec<u8>> = vec![
        // 1
        vec![224, 255, 255, 255, 255, 255, 239, 63],
        // 1
        vec![0, 255, 255, 255, 255, 255, 239, 63],
        // 1
        vec![1, 0, 0, 255, 255, 255, 239, 63],
    ];
    kani::concrete_playback_run(concrete_vals, c20_belief_status_independent_of_recording_order);
}

/// Test generated for harness `projection::verif_kani::c20_belief_status_independent_of_recording_order` 
///
/// Check for `cover`: "uncertain reachable"
///
/// # Warning
///
/// Concrete playback tests combined with stubs or contracts is highly
/// experimental, and subject to change.
///
/// The original harness has stubs which are not applied to this test.
/// This may cause a mismatch of non-deterministic values if the stub
/// creates any non-deterministic value.
/// The execution path may also differ, which can be used to refine the stub
/// logic.

#[test]
fn kani_concrete_playback_c20_belief_status_independent_of_recording_order_3888059574813876416() {
    let concrete_vals: Vec<Vec<u8>> = vec![
        // 0
        vec![0, 0, 0, 0, 0, 0, 0, 0],
        // 0
        vec![0, 0, 0, 0, 0, 0, 0, 0],
        // 0
        vec![0, 0, 0, 0, 0, 0, 0, 0],
    ];
    kani::concrete_playback_run(concrete_vals, c20_belief_status_independent_of_recording_order);
}
