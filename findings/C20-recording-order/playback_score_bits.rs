/// Test generated for harness `projection::verif_kani::c20_aggregate_score_independent_of_recording_order` 
///
/// Check for `assertion`: ""the score depends only on the set of assertions, not on recording order""
///
/// # Warning
///
/// Concrete playback tests combined with stubs or contracts is highly
/// experimental, and subject to change.
///
/// The original harness has stubs which are not applied to this test.
/// This may cause a mismatch of non-deterministic values if the stub
/// creates any non-deterministic value.
/// The execution path may also differ, which can be used to refine the stub
/// logic.

#[test]
fn kani_concrete_playback_c20_aggregate_score_independent_of_recording_order_10011678253781319629() {
    let concrete_vals: Vec<Vec<u8>> = vec![
        // 0.479492
        vec![136, 0, 210, 251, 253, 175, 222, 63],
        // 0.364232
        vec![148, 251, 231, 105, 146, 79, 215, 63],
        // 0.60131
        vec![97, 14, 113, 223, 238, 61, 227, 63],
    ];
    kani::concrete_playback_run(concrete_vals, c20_aggregate_score_independent_of_recording_order);
}

/// Test generated for harness `projection::verif_kani::c20_aggregate_score_independent_of_recording_order` 
///
/// Check for `cover`: "non-trivial score"
///
/// # Warning
///
/// Concrete playback tests combined with stubs or contracts is highly
/// experimental, and subject to change.
///
/// The original harness has stubs which are not applied to this test.
/// This may cause a mismatch of non-deterministic values if the stub
/// creates any non-deterministic value.
/// The execution path may also differ, which can be used to refine the stub
/// logic.

#[test]
fn kani_concrete_playback_c20_aggregate_score_independent_of_recording_order_6097841941986972550() {
    let concrete_vals: Vec<Vec<u8>> = vec![
        // 1.491668e-154
        vec![255, 255, 255, 255, 255, 255, 255, 31],
        // 1.491668e-154
        vec![255, 255, 255, 255, 255, 255, 255, 31],
        // 1
        vec![255, 255, 255, 255, 255, 255, 239, 63],
    ];
    kani::concrete_playback_run(concrete_vals, c20_aggregate_score_independent_of_recording_order);
}
