// Stand-alone demonstration of the C20 finding (for maintainers; not run by ./check).
// Append inside `mod tests` of rs/anda_cognitive_nexus/src/projection/mod.rs at the commit BEFORE
// "fix: belief score no longer depends on the order assertions were recorded in" and run
//   cargo test -p anda_cognitive_nexus --offline --lib same_assertions_different_order
// It fails there (uncertain vs accepted) and passes with the fix.
#[test]
fn same_assertions_different_order_project_the_same_belief() {
    let c = [0.39843749999999994_f64, 0.002655960677508007, 0.49997064298888];
    let one = vec![
        candidate("alice", &[], "support", c[0]),
        candidate("bob", &[], "support", c[1]),
        candidate("carol", &[], "support", c[2]),
    ];
    let other = vec![
        candidate("carol", &[], "support", c[2]),
        candidate("alice", &[], "support", c[0]),
        candidate("bob", &[], "support", c[1]),
    ];
    let (s1, g1) = aggregate(&one, false);
    let (s2, g2) = aggregate(&other, false);
    assert_eq!((g1, g2), (3, 3));
    let policy = Policy::baseline();
    let l1 = Ledger { support_groups: g1, ..Default::default() };
    let l2 = Ledger { support_groups: g2, ..Default::default() };
    assert_eq!(s1.to_bits(), s2.to_bits(), "{s1} vs {s2}");
    assert!(classify(s1, 0.0, &l1, &policy) == classify(s2, 0.0, &l2, &policy));
}
